"""C18 — remove_absence_time_list / insert_absence_time_list keep all logs aligned (lengths), for any list of steps."""

# length of a log of length n after deleting the steps of L the way every class does it (descending, guarded by the
# current length), resp. after inserting them (ascending, guarded by the current length)
define("rm_len(L, n)", "fold_int(sorted(L, reverse=True), n, lambda acc, x: (acc - 1 if x < acc else acc))")
define("ins_len(L, n)", "fold_int(sorted(L), n, lambda acc, x: (acc + 1 if x < acc else acc))")
define("steps_ok(L)", "forall(L, lambda x: x >= 0)")


def leaf(cls, logs, guard_log):
    """logs: names of the per-step logs of the class; guard_log: the one whose length the code tests"""
    eq0 = " and ".join("len(self.%s) == len(self.%s)" % (l, guard_log) for l in logs if l != guard_log) or "True"
    for op, ln, rev in (("remove_absence_time_list", "rm_len", "True"), ("insert_absence_time_list", "ins_len", "False")):
        srt = "sorted(absence_time_list, reverse=True)" if op.startswith("remove") else "sorted(absence_time_list)"
        step = "(acc - 1 if x < acc else acc)" if op.startswith("remove") else "(acc + 1 if x < acc else acc)"
        contract("%s.%s" % (cls, op), props=["C18"],
                 types={"absence_time_list": "List[Int]"},
                 requires=["steps_ok(absence_time_list)", eq0],
                 ensures=[("every-log-same-new-length", " and ".join(
                     "len(self.%s) == %s(absence_time_list, old(len(self.%s)))" % (l, ln, guard_log) for l in logs))],
                 modifies=["%s.%s@self" % (cls, l) for l in logs],
                 loops={0: [("lengths", " and ".join(
                     "len(self.%s) == fold_int(%s, old(len(self.%s)), lambda acc, x: %s, _i)" % (l, srt, guard_log, step) for l in logs)),
                            ("nonneg", "forall(_seq, lambda x: x >= 0)"),
                            ("frame", " and ".join("unchanged_except('%s.%s', self)" % (cls, l) for l in logs))]})


leaf("BaseTask", ["state_record_list", "remaining_work_amount_record_list", "allocated_worker_id_record", "allocated_facility_id_record"], "state_record_list")
leaf("BaseComponent", ["state_record_list", "placed_workplace_id_record"], "state_record_list")
leaf("BaseWorker", ["state_record_list", "cost_list", "assigned_task_id_record"], "state_record_list")
leaf("BaseFacility", ["state_record_list", "cost_list", "assigned_task_id_record"], "state_record_list")


# ------------------------------------------------------------------------------------------------ aggregators
def members_edit(owner, attr, mem, mem_logs, own_logs):
    """team/workplace: every member is edited, then the own logs, with the same guard => one common new length"""
    L = "self." + attr
    for op, ln in (("remove_absence_time_list", "rm_len"), ("insert_absence_time_list", "ins_len")):
        srt = "sorted(absence_time_list, reverse=True)" if op.startswith("remove") else "sorted(absence_time_list)"
        step = "(acc - 1 if x < acc else acc)" if op.startswith("remove") else "(acc + 1 if x < acc else acc)"
        n0 = "old(len(self.%s))" % own_logs[0]
        contract("%s.%s" % (owner, op), props=["C18"], types={"absence_time_list": "List[Int]"},
                 requires=["steps_ok(absence_time_list)", "forall(%s, lambda m: m is not None)" % L, "distinct_list(%s)" % L,
                           # aligned before the edit: own logs and all member logs have one common length
                           " and ".join("len(self.%s) == len(self.%s)" % (l, own_logs[0]) for l in own_logs[1:]) or "True",
                           "forall(%s, lambda m: %s)" % (L, " and ".join("len(m.%s) == len(self.%s)" % (l, own_logs[0]) for l in mem_logs))],
                 ensures=[("own-logs", " and ".join("len(self.%s) == %s(absence_time_list, %s)" % (l, ln, n0) for l in own_logs)),
                          ("member-logs", "forall(%s, lambda m: %s)" % (L, " and ".join(
                              "len(m.%s) == %s(absence_time_list, %s)" % (l, ln, n0) for l in mem_logs)))],
                 modifies=["%s.%s@%s" % (mem, l, L) for l in mem_logs] + ["%s.%s@self" % (owner, l) for l in own_logs],
                 loops={0: [("done", "forall_int(0, _i, lambda k: %s)" % " and ".join(
                                "len(%s[k].%s) == %s(absence_time_list, %s)" % (L, l, ln, n0) for l in mem_logs)),
                            ("todo", "forall_int(_i, len(%s), lambda k: %s)" % (L, " and ".join(
                                "same(%s[k].%s, old(%s[k].%s))" % (L, l, L, l) for l in mem_logs))),
                            ("own", " and ".join("same(self.%s, old(self.%s))" % (l, l) for l in own_logs)),
                            ("frame", " and ".join("unchanged_except('%s.%s', %s)" % (mem, l, L) for l in mem_logs))],
                        1: [("lengths", " and ".join(
                                "len(self.%s) == fold_int(%s, %s, lambda acc, x: %s, _i)" % (l, srt, n0, step) for l in own_logs)),
                            ("nonneg", "forall(_seq, lambda x: x >= 0)"),
                            ("members-kept", "forall(%s, lambda m: %s)" % (L, " and ".join(
                                "len(m.%s) == %s(absence_time_list, %s)" % (l, ln, n0) for l in mem_logs))),
                            ("frame", " and ".join("unchanged_except('%s.%s', self)" % (owner, l) for l in own_logs))]})


RES_LOGS = ["state_record_list", "cost_list", "assigned_task_id_record"]
members_edit("BaseTeam", "worker_list", "BaseWorker", RES_LOGS, ["cost_list"])
members_edit("BaseWorkplace", "facility_list", "BaseFacility", RES_LOGS, ["cost_list", "placed_component_id_record"])


# ------------------------------------------------------------------------------------------------ organization / product / workflow / project
define("team_aligned(tm, n)", "len(tm.cost_list) == n and forall(tm.worker_list, lambda w: len(w.state_record_list) == n and len(w.cost_list) == n and len(w.assigned_task_id_record) == n)")
define("workplace_aligned(wp, n)", "len(wp.cost_list) == n and len(wp.placed_component_id_record) == n"
                                   " and forall(wp.facility_list, lambda f: len(f.state_record_list) == n and len(f.cost_list) == n and len(f.assigned_task_id_record) == n)")
define("task_aligned(t, n)", "len(t.state_record_list) == n and len(t.remaining_work_amount_record_list) == n"
                             " and len(t.allocated_worker_id_record) == n and len(t.allocated_facility_id_record) == n")
define("component_aligned(c, n)", "len(c.state_record_list) == n and len(c.placed_workplace_id_record) == n")
define("org_aligned(o, n)", "len(o.cost_list) == n and forall(o.team_list, lambda tm: team_aligned(tm, n)) and forall(o.workplace_list, lambda wp: workplace_aligned(wp, n))")

WL = ["BaseWorker.state_record_list", "BaseWorker.cost_list", "BaseWorker.assigned_task_id_record"]
FL = ["BaseFacility.state_record_list", "BaseFacility.cost_list", "BaseFacility.assigned_task_id_record"]
for op, ln in (("remove_absence_time_list", "rm_len"), ("insert_absence_time_list", "ins_len")):
    srt = "sorted(absence_time_list, reverse=True)" if op.startswith("remove") else "sorted(absence_time_list)"
    step = "(acc - 1 if x < acc else acc)" if op.startswith("remove") else "(acc + 1 if x < acc else acc)"
    N1 = "%s(absence_time_list, old(len(self.cost_list)))" % ln
    contract("BaseOrganization." + op, props=["C18"], types={"absence_time_list": "List[Int]"},
             requires=["steps_ok(absence_time_list)", "org_wf(self)", "org_aligned(self, len(self.cost_list))"],
             ensures=[("aligned-at-the-new-length", "org_aligned(self, %s)" % N1)],
             modifies=WL + FL + ["BaseTeam.cost_list@self.team_list", "BaseWorkplace.cost_list@self.workplace_list",
                                 "BaseWorkplace.placed_component_id_record@self.workplace_list", "BaseOrganization.cost_list@self"],
             loops={0: [("done", "forall_int(0, _i, lambda k: team_aligned(self.team_list[k], %s))" % N1),
                        ("todo", "forall_int(_i, len(self.team_list), lambda k: team_aligned(self.team_list[k], old(len(self.cost_list))))"),
                        ("rest", "same(self.cost_list, old(self.cost_list)) and " + " and ".join("unchanged('%s')" % f for f in FL)
                                 + " and unchanged('BaseWorkplace.cost_list') and unchanged('BaseWorkplace.placed_component_id_record')"),
                        ("frame", "unchanged_except('BaseTeam.cost_list', self.team_list)")],
                    1: [("teams", "forall(self.team_list, lambda tm: team_aligned(tm, %s))" % N1),
                        ("done", "forall_int(0, _i, lambda k: workplace_aligned(self.workplace_list[k], %s))" % N1),
                        ("todo", "forall_int(_i, len(self.workplace_list), lambda k: workplace_aligned(self.workplace_list[k], old(len(self.cost_list))))"),
                        ("rest", "same(self.cost_list, old(self.cost_list))"),
                        ("frame", "unchanged_except('BaseWorkplace.cost_list', self.workplace_list) and unchanged_except('BaseWorkplace.placed_component_id_record', self.workplace_list)")],
                    2: [("teams", "forall(self.team_list, lambda tm: team_aligned(tm, %s))" % N1),
                        ("workplaces", "forall(self.workplace_list, lambda wp: workplace_aligned(wp, %s))" % N1),
                        ("own", "len(self.cost_list) == fold_int(%s, old(len(self.cost_list)), lambda acc, x: %s, _i)" % (srt, step)),
                        ("nonneg", "forall(_seq, lambda x: x >= 0)"),
                        ("frame", "unchanged_except('BaseOrganization.cost_list', self)")]})

    contract("BaseProduct." + op, props=["C18"], types={"absence_time_list": "List[Int]"},
             requires=["steps_ok(absence_time_list)", "forall(self.component_list, lambda c: c is not None)", "distinct_list(self.component_list)",
                       "forall(self.component_list, lambda c: len(c.placed_workplace_id_record) == len(c.state_record_list))"],
             ensures=[("every-component", "forall(self.component_list, lambda c: component_aligned(c, %s(absence_time_list, old(len(c.state_record_list)))))" % ln)],
             modifies=["BaseComponent.state_record_list@self.component_list", "BaseComponent.placed_workplace_id_record@self.component_list"],
             loops={0: [("done", "forall_int(0, _i, lambda k: let(self.component_list[k], lambda c: component_aligned(c, %s(absence_time_list, old(len(c.state_record_list))))))" % ln),
                        ("todo", "forall_int(_i, len(self.component_list), lambda k: let(self.component_list[k], lambda c:"
                                 " same(c.state_record_list, old(c.state_record_list)) and same(c.placed_workplace_id_record, old(c.placed_workplace_id_record))))"),
                        ("frame", "unchanged_except('BaseComponent.state_record_list', self.component_list) and unchanged_except('BaseComponent.placed_workplace_id_record', self.component_list)")]})

    TLOGS = ["state_record_list", "remaining_work_amount_record_list", "allocated_worker_id_record", "allocated_facility_id_record"]
    contract("BaseWorkflow." + op, props=["C18"], types={"absence_time_list": "List[Int]"},
             requires=["steps_ok(absence_time_list)", "forall(self.task_list, lambda t: t is not None)", "distinct_list(self.task_list)",
                       "forall(self.task_list, lambda t: task_aligned(t, len(t.state_record_list)))"],
             # every task of the workflow, sub-project tasks included
             ensures=[("every-task", "forall(self.task_list, lambda t: task_aligned(t, %s(absence_time_list, old(len(t.state_record_list)))))" % ln)],
             modifies=["BaseTask.%s@self.task_list" % l for l in TLOGS],
             loops={0: [("done", "forall_int(0, _i, lambda k: let(self.task_list[k], lambda t: task_aligned(t, %s(absence_time_list, old(len(t.state_record_list))))))" % ln),
                        ("todo", "forall_int(_i, len(self.task_list), lambda k: let(self.task_list[k], lambda t: " +
                                 " and ".join("same(t.%s, old(t.%s))" % (l, l) for l in TLOGS) + "))"),
                        ("frame", " and ".join("unchanged_except('BaseTask.%s', self.task_list)" % l for l in TLOGS))]})

define("proj_refs(p)", "p.workflow is not None and p.organization is not None and p.product is not None"
                       " and forall(p.workflow.task_list, lambda t: t is not None) and distinct_list(p.workflow.task_list)"
                       " and forall(p.product.component_list, lambda c: c is not None) and distinct_list(p.product.component_list)"
                       " and org_wf(p.organization)")
contract("BaseProject.remove_absence_time_list", props=["C18", "C10", "C20"],
         requires=["proj_refs(self)", "steps_ok(self.absence_time_list)", "aligned(self, len(self.cost_list))", "self.time == len(self.cost_list)"],
         ensures=[("aligned-at-the-new-length", "aligned(self, rm_len(old(self.absence_time_list), old(len(self.cost_list))))"),
                  ("time-is-the-new-length", "self.time == len(self.cost_list)"),
                  ("no-absence-steps-left", "len(self.absence_time_list) == 0")],
         modifies=WL + FL + ["BaseTeam.cost_list", "BaseWorkplace.cost_list", "BaseWorkplace.placed_component_id_record", "BaseOrganization.cost_list",
                             "BaseComponent.state_record_list", "BaseComponent.placed_workplace_id_record"]
                  + ["BaseTask.%s" % l for l in ("state_record_list", "remaining_work_amount_record_list", "allocated_worker_id_record", "allocated_facility_id_record")]
                  + ["BaseProject.cost_list@self", "BaseProject.time@self", "BaseProject.absence_time_list@self"],
         loops={0: [("own", "len(self.cost_list) == fold_int(sorted(self.absence_time_list, reverse=True), old(len(self.cost_list)), lambda acc, x: (acc - 1 if x < acc else acc), _i)"),
                    ("nonneg", "forall(_seq, lambda x: x >= 0)"),
                    ("frame", "unchanged_except('BaseProject.cost_list', self)")]})

contract("BaseProject.insert_absence_time_list", props=["C18"], types={"absence_time_list": "List[Int]"},
         requires=["proj_refs(self)", "steps_ok(absence_time_list)", "aligned(self, len(self.cost_list))", "self.time == len(self.cost_list)"],
         ensures=[("all-logs-still-aligned", "aligned(self, len(self.cost_list))"),
                  ("time-is-the-new-length", "self.time == len(self.cost_list)"),
                  ("never-shorter", "len(self.cost_list) >= old(len(self.cost_list))")],
         modifies=WL + FL + ["BaseTeam.cost_list", "BaseWorkplace.cost_list", "BaseWorkplace.placed_component_id_record", "BaseOrganization.cost_list",
                             "BaseComponent.state_record_list", "BaseComponent.placed_workplace_id_record"]
                  + ["BaseTask.%s" % l for l in ("state_record_list", "remaining_work_amount_record_list", "allocated_worker_id_record", "allocated_facility_id_record")]
                  + ["BaseProject.cost_list@self", "BaseProject.time@self", "BaseProject.absence_time_list@self"],
         loops={0: [("new-steps-ok", "forall(new_absence_time_list, lambda x: x >= 0)")],
                1: [("own", "len(self.cost_list) == fold_int(sorted(new_absence_time_list), old(len(self.cost_list)), lambda acc, x: (acc + 1 if x < acc else acc), _i)"),
                    ("never-shorter", "len(self.cost_list) >= old(len(self.cost_list))"),
                    ("nonneg", "forall(_seq, lambda x: x >= 0)"),
                    ("frame", "unchanged_except('BaseProject.cost_list', self)")]})
