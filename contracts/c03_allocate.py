"""C03 / C04 / C06(c) / C11(b) / C13 — BaseProject.__allocate (bounded stand-in: UNROLL mode, see props.py)."""

contract("BaseProject.__allocate", props=["C03", "C04", "C06", "C11", "C13"],
         types={"task_priority_rule": "Enum(TaskPriorityRuleMode)"},
         requires=["self.workflow is not None and self.organization is not None"],
         ensures=[("task-states-untouched", "unchanged('BaseTask.state')")],
         modifies=["BaseTask.allocated_worker_list", "BaseTask.allocated_facility_list", "BaseWorker.assigned_task_list",
                   "BaseFacility.assigned_task_list", "BaseComponent.placed_workplace", "BaseWorkplace.placed_component_list"])
