"""C11(a) — each sorting function returns a permutation of its input ordered by the documented key of the rule.

Keys are written from the documentation of the rules (enum comments, docstrings, property text), not from the code.
"""
T = "TaskPriorityRuleMode"
task_rules = [
    ("TSLACK", "lambda t: t.lst - t.est", False),
    ("EST", "lambda t: t.est", False),
    ("SPT", "lambda t: t.default_work_amount", False),
    ("LPT", "lambda t: t.default_work_amount", True),
    ("FIFO", "lambda t: len([i for i in range(len(t.state_record_list)) if t.state_record_list[i] == BaseTaskState.READY])", True),
    ("LRPT", "lambda t: t.remaining_work_amount", True),
    ("SRPT", "lambda t: t.remaining_work_amount", False),
    ("LWRPT", "lambda t: t.parent_workflow.critical_path_length", True),
    ("SWRPT", "lambda t: t.parent_workflow.critical_path_length", False),
]
contract("sort_task_list", props=["C11"],
         types={"task_list": "List[Ref(BaseTask)]", "priority_rule_mode": "Enum(TaskPriorityRuleMode)"},
         returns="List[Ref(BaseTask)]",
         requires=["forall(task_list, lambda t: t is not None)",
                   "implies(priority_rule_mode == TaskPriorityRuleMode.LWRPT or priority_rule_mode == TaskPriorityRuleMode.SWRPT,"
                   " forall(task_list, lambda t: t.parent_workflow is not None))"],
         ensures=[("permutation", "is_perm(result, task_list)")] +
                 [("ordered-" + r, "implies(priority_rule_mode == %s.%s, sorted_by(result, %s, %s))" % (T, r, key, rev))
                  for r, key, rev in task_rules],
         modifies=[])

R = "ResourcePriorityRuleMode"
# tie-break components shared by the worker rules: main workplace EQUAL to the target first, then no main workplace
MW1 = "w.main_workplace_id != kw_workplace_id"
MW2 = "not is_none(w.main_workplace_id)"
SSPK = "sum(w.workamount_skill_mean_map.values())"
worker_rules = [
    ("MW", "lambda w: (%s, %s, %s)" % (MW1, MW2, SSPK), False),
    ("SSP", "lambda w: (%s, %s, %s)" % (SSPK, MW1, MW2), False),
    ("VC", "lambda w: (w.cost_per_time, %s, %s)" % (MW1, MW2), False),
    ("HSV", "lambda w: (-w.workamount_skill_mean_map.get(kw_name, -float('inf')), %s, %s)" % (MW1, MW2), False),
]
contract("sort_worker_list", props=["C11"],
         types={"worker_list": "List[Ref(BaseWorker)]", "priority_rule_mode": "Enum(ResourcePriorityRuleMode)",
                "kw_name": "Str", "kw_workplace_id": "Opt[Str]"},
         returns="List[Ref(BaseWorker)]",
         requires=["forall(worker_list, lambda w: w is not None)",
                   "implies(priority_rule_mode == ResourcePriorityRuleMode.HSV, 'name' in kwargs)"],
         ensures=[("permutation", "is_perm(result, worker_list)")] +
                 [("ordered-" + r, "implies(priority_rule_mode == %s.%s, sorted_by(result, %s, %s))" % (R, r, key, rev))
                  for r, key, rev in worker_rules],
         modifies=[])

facility_rules = [
    ("SSP", "lambda f: sum(f.workamount_skill_mean_map.values())", False),
    ("VC", "lambda f: f.cost_per_time", False),
    ("HSV", "lambda f: f.workamount_skill_mean_map.get(kw_name, -float('inf'))", True),
]
contract("sort_facility_list", props=["C11"],
         types={"facility_list": "List[Ref(BaseFacility)]", "priority_rule_mode": "Enum(ResourcePriorityRuleMode)", "kw_name": "Str"},
         returns="List[Ref(BaseFacility)]",
         requires=["forall(facility_list, lambda f: f is not None)",
                   "implies(priority_rule_mode == ResourcePriorityRuleMode.HSV, 'name' in kwargs)"],
         ensures=[("permutation", "is_perm(result, facility_list)")] +
                 [("ordered-" + r, "implies(priority_rule_mode == %s.%s, sorted_by(result, %s, %s))" % (R, r, key, rev))
                  for r, key, rev in facility_rules] +
                 # every value of the shared rule enum must be accepted for facilities (MW has no meaning: input order)
                 [("accepts-MW", "implies(priority_rule_mode == ResourcePriorityRuleMode.MW, is_perm(result, facility_list))")],
         modifies=[])

contract("BaseWorkplace.get_available_space_size", props=["C13", "C11"], pure=True, returns="Real",
         result_is="self.max_space_size - sum_of(self.placed_component_list, lambda c: c.space_size)",
         requires=["forall(self.placed_component_list, lambda c: c is not None)"],
         ensures=[("def", "result == self.max_space_size - sum_of(self.placed_component_list, lambda c: c.space_size)")],
         modifies=[])

W = "WorkplacePriorityRuleMode"
contract("sort_workplace_list", props=["C11"],
         types={"workplace_list": "List[Ref(BaseWorkplace)]", "priority_rule_mode": "Enum(WorkplacePriorityRuleMode)", "kw_name": "Str"},
         returns="List[Ref(BaseWorkplace)]",
         requires=["forall(workplace_list, lambda p: p is not None and forall(p.placed_component_list, lambda c: c is not None)"
                   " and forall(p.facility_list, lambda f: f is not None))",
                   "implies(priority_rule_mode == WorkplacePriorityRuleMode.SSP, 'name' in kwargs)"],
         ensures=[("permutation", "is_perm(result, workplace_list)"),
                  ("ordered-FSS", "implies(priority_rule_mode == %s.FSS, sorted_by(result, lambda p: p.max_space_size - sum_of(p.placed_component_list, lambda c: c.space_size), True))" % W),
                  ("ordered-SSP", "implies(priority_rule_mode == %s.SSP, sorted_by(result, lambda p: sum([f.workamount_skill_mean_map[kw_name] for f in p.facility_list if has_skill(f, kw_name)]), True))" % W)],
         modifies=[])
