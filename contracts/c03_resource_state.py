"""C03(d) / C10 — resource state from assignment and absence (phase A of a step)."""

define("w_state_rule(w, t)", "ite(t in w.absence_time_list, BaseWorkerState.ABSENCE, ite(len(w.assigned_task_list) == 0, BaseWorkerState.FREE, BaseWorkerState.WORKING))")
define("f_state_rule(f, t)", "ite(t in f.absence_time_list, BaseFacilityState.ABSENCE, ite(len(f.assigned_task_list) == 0, BaseFacilityState.FREE, BaseFacilityState.WORKING))")

contract("BaseWorker.check_update_state_from_absence_time_list", props=["C03", "C10"], types={"step_time": "Int"},
         ensures=[("state-from-absence-and-assignment", "self.state == w_state_rule(self, step_time)")],
         modifies=["BaseWorker.state@self"])
contract("BaseFacility.check_update_state_from_absence_time_list", props=["C03", "C10"], types={"step_time": "Int"},
         ensures=[("state-from-absence-and-assignment", "self.state == f_state_rule(self, step_time)")],
         modifies=["BaseFacility.state@self"])


def members(owner, attr, mem, rule, absfn, st):
    L = "self." + attr
    contract("%s.check_update_state_from_absence_time_list" % owner, props=["C03", "C10"], types={"step_time": "Int"},
             requires=["forall(%s, lambda m: m is not None)" % L],
             ensures=[("each-member", "forall(%s, lambda m: m.state == %s(m, step_time))" % (L, rule))],
             modifies=["%s.state@%s" % (mem, L)],
             loops={0: [("done", "forall_int(0, _i, lambda k: %s[k].state == %s(%s[k], step_time))" % (L, rule, L)),
                        ("frame", "unchanged_except('%s.state', %s)" % (mem, L))]})
    contract("%s.%s" % (owner, absfn), props=["C10"],
             requires=["forall(%s, lambda m: m is not None)" % L],
             ensures=[("all-absent", "forall(%s, lambda m: m.state == %s.ABSENCE)" % (L, st))],
             modifies=["%s.state@%s" % (mem, L)],
             loops={0: [("done", "forall_int(0, _i, lambda k: %s[k].state == %s.ABSENCE)" % (L, st)),
                        ("frame", "unchanged_except('%s.state', %s)" % (mem, L))]})


members("BaseTeam", "worker_list", "BaseWorker", "w_state_rule", "set_absence_state_to_all_workers", "BaseWorkerState")
members("BaseWorkplace", "facility_list", "BaseFacility", "f_state_rule", "set_absence_state_to_all_facilities", "BaseFacilityState")

define("org_members_ok(o)", "forall(o.team_list, lambda t: t is not None and forall(t.worker_list, lambda w: w is not None))"
                            " and forall(o.workplace_list, lambda p: p is not None and forall(p.facility_list, lambda f: f is not None))")
contract("BaseOrganization.check_update_state_from_absence_time_list", props=["C03", "C10"], types={"step_time": "Int"},
         requires=["org_members_ok(self)"],
         ensures=[("workers", "forall(self.team_list, lambda t: forall(t.worker_list, lambda w: w.state == w_state_rule(w, step_time)))"),
                  ("facilities", "forall(self.workplace_list, lambda p: forall(p.facility_list, lambda f: f.state == f_state_rule(f, step_time)))")],
         modifies=["BaseWorker.state", "BaseFacility.state"],
         loops={0: [("done", "forall_int(0, _i, lambda k: forall(self.team_list[k].worker_list, lambda w: w.state == w_state_rule(w, step_time)))"),
                    ("facilities-untouched", "unchanged('BaseFacility.state')")],
                1: [("workers-kept", "forall(self.team_list, lambda t: forall(t.worker_list, lambda w: w.state == w_state_rule(w, step_time)))"),
                    ("done", "forall_int(0, _i, lambda k: forall(self.workplace_list[k].facility_list, lambda f: f.state == f_state_rule(f, step_time)))")]})
contract("BaseOrganization.set_absence_state_to_all_workers_facilities", props=["C10"],
         requires=["org_members_ok(self)"],
         ensures=[("workers", "forall(self.team_list, lambda t: forall(t.worker_list, lambda w: w.state == BaseWorkerState.ABSENCE))"),
                  ("facilities", "forall(self.workplace_list, lambda p: forall(p.facility_list, lambda f: f.state == BaseFacilityState.ABSENCE))")],
         modifies=["BaseWorker.state", "BaseFacility.state"],
         loops={0: [("done", "forall_int(0, _i, lambda k: forall(self.team_list[k].worker_list, lambda w: w.state == BaseWorkerState.ABSENCE))"),
                    ("facilities-untouched", "unchanged('BaseFacility.state')")],
                1: [("workers-kept", "forall(self.team_list, lambda t: forall(t.worker_list, lambda w: w.state == BaseWorkerState.ABSENCE))"),
                    ("done", "forall_int(0, _i, lambda k: forall(self.workplace_list[k].facility_list, lambda f: f.state == BaseFacilityState.ABSENCE))")]})
