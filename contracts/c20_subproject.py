"""C20 — a sub-project task lasts exactly as long as the sub-project it stands for."""

PF = ["init_datetime", "unit_timedelta", "absence_time_list", "perform_auto_task_while_absence_time", "product", "organization",
      "workflow", "time", "cost_list", "simulation_mode", "status"]
# TRUSTED: construction of an empty project and loading a saved file (file I/O and JSON are outside the subset).
# The loaded project of a SUCCESSFUL run is assumed to be a well-formed, aligned result (that is what C08/C16 are about).
contract("BaseProject.__init__", props=["C20"], ensures=[], modifies=["BaseProject.%s@self" % f for f in PF],
         note="TRUSTED: default construction")
contract("BaseProject.read_simple_json", props=["C20"], types={"file_path": "Opt[Str]"},
         ensures=[("trusted:loaded-result-is-well-formed",
                   "implies(self.status == BaseProjectStatus.FINISHED_SUCCESS, proj_refs(self) and steps_ok(self.absence_time_list)"
                   " and aligned(self, len(self.cost_list)) and self.time == len(self.cost_list))")],
         modifies=["BaseProject.%s@self" % f for f in PF],
         note="TRUSTED: reading a file; the saved result of a successful run is assumed aligned (C08) and well-formed")

contract("BaseSubProjectTask.set_all_attributes_from_json", props=["C20"],
         types={"file_path": "Opt[Str]", "remove_absence_time_list": "Bool"},
         returns="Opt[Tuple[Int,Delta]]",
         ensures=[
             # refused with a warning: the task is left unchanged
             ("refusal-leaves-task-unchanged", "implies(not is_none(result), same(self.default_work_amount, old(self.default_work_amount))"
                                               " and same(self.unit_timedelta, old(self.unit_timedelta)) and result[0] == -1)"),
             ("configured", "implies(is_none(result), self.read_json_file and self.remove_absence_time_list == remove_absence_time_list)"),
         ],
         modifies=["BaseSubProjectTask.remove_absence_time_list@self", "BaseSubProjectTask.read_json_file@self",
                   "BaseTask.default_work_amount@self", "BaseSubProjectTask.unit_timedelta@self",
                   # the temporary project object and everything loaded into it
                   "BaseProject.init_datetime", "BaseProject.unit_timedelta", "BaseProject.absence_time_list",
                   "BaseProject.perform_auto_task_while_absence_time", "BaseProject.product", "BaseProject.organization", "BaseProject.workflow",
                   "BaseProject.time", "BaseProject.cost_list", "BaseProject.simulation_mode", "BaseProject.status",
                   "BaseWorker.state_record_list", "BaseWorker.cost_list", "BaseWorker.assigned_task_id_record",
                   "BaseFacility.state_record_list", "BaseFacility.cost_list", "BaseFacility.assigned_task_id_record",
                   "BaseTeam.cost_list", "BaseWorkplace.cost_list", "BaseWorkplace.placed_component_id_record", "BaseOrganization.cost_list",
                   "BaseComponent.state_record_list", "BaseComponent.placed_workplace_id_record",
                   "BaseTask.state_record_list", "BaseTask.remaining_work_amount_record_list", "BaseTask.allocated_worker_id_record",
                   "BaseTask.allocated_facility_id_record"])

contract("BaseSubProjectTask.set_work_amount_progress_of_unit_step_time", props=["C20"],
         types={"project_unit_timedelta": "Delta"},
         requires=["self.unit_timedelta != 0"],
         ensures=[("rate-is-parent-unit-over-sub-unit", "self.work_amount_progress_of_unit_step_time == project_unit_timedelta / self.unit_timedelta")],
         modifies=["BaseTask.work_amount_progress_of_unit_step_time@self"])
