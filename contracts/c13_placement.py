"""C13 — component placement: leaf functions of the placement block (unbounded) ; the block itself is in __allocate (bounded)."""

# the product structure: `desc` is the reflexive-transitive closure of the child relation, `crank` a rank witnessing acyclicity
define("comp_tree_wf()",
       "forall_obj('BaseComponent', lambda c: ghost_rel('desc', c, c)"
       " and forall(c.child_component_list, lambda ch: ch is not None and ghost_int('crank', c) < ghost_int('crank', ch)"
       "       and forall_obj('BaseComponent', lambda d: implies(ghost_rel('desc', ch, d), ghost_rel('desc', c, d))))"
       " and forall_obj('BaseComponent', lambda d: implies(ghost_rel('desc', c, d), d is c or exists(c.child_component_list, lambda ch: ghost_rel('desc', ch, d)))))")

contract("BaseComponent.is_ready", props=["C13"], pure=True, returns="Bool",
         requires=["forall(self.targeted_task_list, lambda t: t is not None)"],
         ensures=[("def", "result == (exists(self.targeted_task_list, lambda t: t.state == BaseTaskState.READY)"
                          " and not exists(self.targeted_task_list, lambda t: t.state == BaseTaskState.WORKING)"
                          " and not forall(self.targeted_task_list, lambda t: t.state == BaseTaskState.FINISHED))"),
                  # C13: a component is only (re)placed while none of its tasks is WORKING
                  ("ready-means-no-task-working", "implies(result, forall(self.targeted_task_list, lambda t: t.state != BaseTaskState.WORKING))")],
         modifies=[])

contract("BaseWorkplace.can_put", props=["C13"], pure=True, types={"component": "Ref(BaseComponent)"}, returns="Bool",
         requires=["component is not None", "forall(self.placed_component_list, lambda c: c is not None)"],
         ensures=[("capacity", "result == (self.max_space_size - sum_of(self.placed_component_list, lambda c: c.space_size) > component.space_size - 1e-8)"),
                  # C13(b): accepting keeps the space taken (every listed component counted) within capacity + tolerance
                  ("fits", "implies(result, sum_of(self.placed_component_list, lambda c: c.space_size) + component.space_size < self.max_space_size + 1e-8)")],
         modifies=[])

contract("BaseComponent.set_placed_workplace", props=["C13"],
         types={"placed_workplace": "Ref(BaseWorkplace)", "set_to_all_children": "Bool"},
         requires=["comp_tree_wf()"],
         ensures=[("self", "self.placed_workplace is placed_workplace"),
                  ("whole-subtree", "implies(set_to_all_children, forall_obj('BaseComponent', lambda d: implies(ghost_rel('desc', self, d), d.placed_workplace is placed_workplace)))"),
                  ("nothing-else", "forall_obj('BaseComponent', lambda d: implies(not ghost_rel('desc', self, d), d.placed_workplace is old(d.placed_workplace)))"),
                  ("children-kept-if-not-requested", "implies(not set_to_all_children, forall_obj('BaseComponent', lambda d: implies(d is not self, d.placed_workplace is old(d.placed_workplace))))")],
         modifies=["BaseComponent.placed_workplace"],
         loops={0: [("self", "self.placed_workplace is placed_workplace"),
                    ("done", "forall_int(0, _i, lambda k: forall_obj('BaseComponent', lambda d: implies(ghost_rel('desc', self.child_component_list[k], d), d.placed_workplace is placed_workplace)))"),
                    ("nothing-else", "forall_obj('BaseComponent', lambda d: implies(not ghost_rel('desc', self, d), d.placed_workplace is old(d.placed_workplace)))"),
                    ("flag", "set_to_all_children")]})


define("in_subtree(c, d)", "ghost_rel('desc', c, d)")
# every component below `c` (c included) has pairwise disjoint child subtrees: the part of the product under c is a tree, not a DAG
define("subtree_is_tree(c)",
       "forall_obj('BaseComponent', lambda a: implies(in_subtree(c, a),"
       "   forall_int(0, len(a.child_component_list), lambda i: forall_int(0, len(a.child_component_list), lambda j: implies(i != j,"
       "       forall_obj('BaseComponent', lambda d: not (in_subtree(a.child_component_list[i], d) and in_subtree(a.child_component_list[j], d))))))))")
define("rank_along_desc()",
       "forall_obj('BaseComponent', lambda c: forall_obj('BaseComponent', lambda d: implies(in_subtree(c, d), d is c or ghost_int('crank', c) < ghost_int('crank', d))))")

define("nodup(L)", "forall_int(0, len(L), lambda i: forall_int(0, len(L), lambda j: implies(L[i] is L[j], i == j)))")

contract("BaseWorkplace.set_placed_component", props=["C13"],
         types={"placed_component": "Ref(BaseComponent)", "set_to_all_children_components": "Bool"},
         requires=["placed_component is not None", "comp_tree_wf()"],
         ensures=[("listed", "placed_component in self.placed_component_list"),
                  ("kept", "forall(old(self.placed_component_list), lambda e: e in self.placed_component_list)"),
                  ("only-subtree-added", "forall(self.placed_component_list, lambda e: e in old(self.placed_component_list) or in_subtree(placed_component, e))"),
                  ("already-listed-is-a-no-op", "implies(old(placed_component in self.placed_component_list), seq_eq(self.placed_component_list, old(self.placed_component_list)))"),
                  ("children-listed", "implies(set_to_all_children_components and not old(placed_component in self.placed_component_list),"
                                      " forall(placed_component.child_component_list, lambda ch: ch in self.placed_component_list))"),
                  ("listed-once", "implies(old(nodup(self.placed_component_list)), nodup(self.placed_component_list))")],
         modifies=["BaseWorkplace.placed_component_list@self"],
         loops={0: [("listed", "placed_component in self.placed_component_list"),
                    ("kept", "forall(old(self.placed_component_list), lambda e: e in self.placed_component_list)"),
                    ("only-subtree-added", "forall(self.placed_component_list, lambda e: e in old(self.placed_component_list) or in_subtree(placed_component, e))"),
                    ("done", "forall_int(0, _i, lambda k: placed_component.child_component_list[k] in self.placed_component_list)"),
                    ("listed-once", "implies(old(nodup(self.placed_component_list)), nodup(self.placed_component_list))"),
                    ("frame", "unchanged_except('BaseWorkplace.placed_component_list', self)"),
                    ("flag", "set_to_all_children_components")]})

contract("BaseWorkplace.remove_placed_component", props=["C13", "C05"],
         types={"placed_component": "Ref(BaseComponent)", "remove_to_all_children_components": "Bool"},
         requires=["placed_component is not None", "comp_tree_wf()", "rank_along_desc()",
                   # list.remove raises ValueError otherwise (D17): the whole subtree is listed here, and it is a tree
                   "placed_component in self.placed_component_list",
                   "implies(remove_to_all_children_components, subtree_is_tree(placed_component)"
                   " and forall_obj('BaseComponent', lambda d: implies(in_subtree(placed_component, d), d in self.placed_component_list)))"],
         ensures=[("subset", "forall(self.placed_component_list, lambda e: e in old(self.placed_component_list))"),
                  ("only-subtree-removed", "forall(old(self.placed_component_list), lambda e: e in self.placed_component_list or in_subtree(placed_component, e))"),
                  ("shorter", "len(self.placed_component_list) < old(len(self.placed_component_list))"),
                  ("gone", "implies(old(nodup(self.placed_component_list)), not (placed_component in self.placed_component_list))"),
                  ("whole-subtree-gone", "implies(old(nodup(self.placed_component_list)) and remove_to_all_children_components,"
                                         " forall_obj('BaseComponent', lambda d: implies(in_subtree(placed_component, d), not (d in self.placed_component_list))))"),
                  ("listed-once", "implies(old(nodup(self.placed_component_list)), nodup(self.placed_component_list))")],
         modifies=["BaseWorkplace.placed_component_list@self"],
         loops={0: [("subset", "forall(self.placed_component_list, lambda e: e in old(self.placed_component_list))"),
                    ("only-subtree-removed", "forall(old(self.placed_component_list), lambda e: e in self.placed_component_list or in_subtree(placed_component, e))"),
                    ("shorter", "len(self.placed_component_list) < old(len(self.placed_component_list))"),
                    ("rest-still-listed", "forall_int(_i, _n, lambda k: forall_obj('BaseComponent', lambda d: implies(in_subtree(placed_component.child_component_list[k], d), d in self.placed_component_list)))"),
                    ("gone", "implies(old(nodup(self.placed_component_list)), not (placed_component in self.placed_component_list)"
                             " and forall_int(0, _i, lambda k: forall_obj('BaseComponent', lambda d: implies(in_subtree(placed_component.child_component_list[k], d), not (d in self.placed_component_list)))))"),
                    ("listed-once", "implies(old(nodup(self.placed_component_list)), nodup(self.placed_component_list))"),
                    ("frame", "unchanged_except('BaseWorkplace.placed_component_list', self)"),
                    ("flag", "remove_to_all_children_components")]})

# ---------------------------------------------------------------- the placement block of __allocate (one execution, for one task)
define("subtree_listed(c)", "implies(c.placed_workplace is not None, forall_obj('BaseComponent', lambda d: implies(in_subtree(c, d), d in c.placed_workplace.placed_component_list)))")
define("tc_moved(task)", "task.target_component is not None and task.target_component.placed_workplace is not old(task.target_component.placed_workplace)")
define("used_space(wp)", "sum_of(wp.placed_component_list, lambda c: c.space_size)")
contract("BaseProject.__allocate@placement", props=["C13"],
         types={"task": "Ref(BaseTask)", "target_workplace_id_list": "List[Str]"},
         requires=["task is not None",
                   "forall(task.allocated_workplace_list, lambda wp: wp is not None)",
                   "forall_obj('BaseComponent', lambda c: forall(c.targeted_task_list, lambda t: t is not None) and forall(c.child_component_list, lambda x: x is not None)"
                   "   and forall(c.parent_component_list, lambda x: x is not None))",
                   "forall_obj('BaseWorkplace', lambda wp: forall(wp.placed_component_list, lambda c: c is not None) and forall(wp.facility_list, lambda f: f is not None))",
                   "comp_tree_wf()", "rank_along_desc()",
                   # what remove_placed_component needs (list.remove raises otherwise, D17): the placed subtree is listed where it is placed
                   "implies(task.target_component is not None, subtree_is_tree(task.target_component) and subtree_listed(task.target_component))",
                   # the assembly branch (an unplaced parent whose children are placed on their own; it edits a list while iterating it) is excluded
                   "implies(task.target_component is not None and task.target_component.placed_workplace is None,"
                   " forall(task.target_component.child_component_list, lambda ch: ch.placed_workplace is None))"],
         ensures=[("moves-only-while-no-task-working", "implies(tc_moved(task), forall(task.target_component.targeted_task_list, lambda t: t.state != BaseTaskState.WORKING))"),
                  # stated through the candidate list (the new workplace IS one of the task's workplaces): same content, easier for the solver
                  ("conveyor-rule", "implies(tc_moved(task), exists(task.allocated_workplace_list, lambda w: w is task.target_component.placed_workplace"
                        " and (len(w.input_workplace_list) == 0 or old(task.target_component.placed_workplace) is None"
                        "      or old(task.target_component.placed_workplace) in w.input_workplace_list)))"),
                  ("only-into-a-workplace-of-the-task", "implies(tc_moved(task), task.target_component.placed_workplace in task.allocated_workplace_list"
                        " and task.target_component.placed_workplace.ID in target_workplace_id_list)"),
                  ("capacity-checked-on-entry", "implies(tc_moved(task), let(task.target_component.placed_workplace, lambda w:"
                        " old(used_space(w)) + task.target_component.space_size < w.max_space_size + 1e-8))"),
                  ("listed-where-placed", "implies(tc_moved(task), exists(task.allocated_workplace_list, lambda w: w is task.target_component.placed_workplace"
                        " and task.target_component in w.placed_component_list))"),
                  ("delisted-where-it-was", "implies(tc_moved(task) and old(task.target_component.placed_workplace) is not None"
                        " and old(nodup(task.target_component.placed_workplace.placed_component_list)),"
                        " not (task.target_component in old(task.target_component.placed_workplace).placed_component_list))"),
                  ("whole-subtree-relabelled", "implies(tc_moved(task), forall_obj('BaseComponent', lambda d: implies(in_subtree(task.target_component, d),"
                        " d.placed_workplace is task.target_component.placed_workplace)))"),
                  # C13(a) for nested products: wherever a component is placed, its whole subtree is listed there (what the next removal relies on)
                  ("placed-subtrees-stay-listed", "implies(old(forall_obj('BaseComponent', lambda c: subtree_listed(c))), forall_obj('BaseComponent', lambda c: subtree_listed(c)))"),
                  ("other-components-stay", "forall_obj('BaseComponent', lambda d: implies(task.target_component is None or not in_subtree(task.target_component, d),"
                        " d.placed_workplace is old(d.placed_workplace)))"),
                  ("other-workplaces-untouched", "forall_obj('BaseWorkplace', lambda wp: implies(task.target_component is None"
                        " or (wp is not task.target_component.placed_workplace and wp is not old(task.target_component.placed_workplace)),"
                        " seq_eq(wp.placed_component_list, old(wp.placed_component_list))))")],
         modifies=["BaseComponent.placed_workplace", "BaseWorkplace.placed_component_list"],
         loops={0: [("nothing-moved-yet", "unchanged('BaseComponent.placed_workplace') and unchanged('BaseWorkplace.placed_component_list')")],
                1: [("nothing-removed", "unchanged('BaseComponent.placed_workplace') and unchanged('BaseWorkplace.placed_component_list')")],
                2: [("excluded", "True")]},
         unreachable_loops=[2],
         note="block of BaseProject.__allocate (source.BLOCKS): one execution for one task; loop #2 excluded by the last precondition")

contract("BaseWorkplace.get_total_workamount_skill", props=["C13", "C11"], pure=True, types={"task_name": "Str"}, returns="Real",
         requires=["forall(self.facility_list, lambda f: f is not None)"],
         ensures=[("def", "result == sum_of(self.facility_list, lambda f: ite(has_skill(f, task_name), f.workamount_skill_mean_map[task_name], 0.0))")],
         modifies=[],
         loops={0: [("acc", "sum_skill_point == sum_upto(self.facility_list, lambda f: ite(has_skill(f, task_name), f.workamount_skill_mean_map[task_name], 0.0), _i)")]})
