"""C13 — component placement: leaf functions of the placement block (unbounded) ; the block itself is in __allocate (bounded)."""

# the product structure: `desc` is the reflexive-transitive closure of the child relation, `crank` a rank witnessing acyclicity
define("comp_tree_wf()",
       "forall_obj('BaseComponent', lambda c: ghost_rel('desc', c, c)"
       " and forall(c.child_component_list, lambda ch: ch is not None and ghost_int('crank', c) < ghost_int('crank', ch)"
       "       and forall_obj('BaseComponent', lambda d: implies(ghost_rel('desc', ch, d), ghost_rel('desc', c, d))))"
       " and forall_obj('BaseComponent', lambda d: implies(ghost_rel('desc', c, d), d is c or exists(c.child_component_list, lambda ch: ghost_rel('desc', ch, d)))))")

contract("BaseComponent.is_ready", props=["C13"], pure=True, returns="Bool",
         requires=["forall(self.targeted_task_list, lambda t: t is not None)"],
         ensures=[("def", "result == (exists(self.targeted_task_list, lambda t: t.state == BaseTaskState.READY)"
                          " and not exists(self.targeted_task_list, lambda t: t.state == BaseTaskState.WORKING)"
                          " and not forall(self.targeted_task_list, lambda t: t.state == BaseTaskState.FINISHED))"),
                  # C13: a component is only (re)placed while none of its tasks is WORKING
                  ("ready-means-no-task-working", "implies(result, forall(self.targeted_task_list, lambda t: t.state != BaseTaskState.WORKING))")],
         modifies=[])

contract("BaseWorkplace.can_put", props=["C13"], pure=True, types={"component": "Ref(BaseComponent)"}, returns="Bool",
         requires=["component is not None", "forall(self.placed_component_list, lambda c: c is not None)"],
         ensures=[("capacity", "result == (self.max_space_size - sum_of(self.placed_component_list, lambda c: c.space_size) > component.space_size - 1e-8)"),
                  # C13(b): accepting keeps the space taken (every listed component counted) within capacity + tolerance
                  ("fits", "implies(result, sum_of(self.placed_component_list, lambda c: c.space_size) + component.space_size < self.max_space_size + 1e-8)")],
         modifies=[])

contract("BaseComponent.set_placed_workplace", props=["C13"],
         types={"placed_workplace": "Ref(BaseWorkplace)", "set_to_all_children": "Bool"},
         requires=["comp_tree_wf()"],
         ensures=[("self", "self.placed_workplace is placed_workplace"),
                  ("whole-subtree", "implies(set_to_all_children, forall_obj('BaseComponent', lambda d: implies(ghost_rel('desc', self, d), d.placed_workplace is placed_workplace)))"),
                  ("nothing-else", "forall_obj('BaseComponent', lambda d: implies(not ghost_rel('desc', self, d), d.placed_workplace is old(d.placed_workplace)))"),
                  ("children-kept-if-not-requested", "implies(not set_to_all_children, forall_obj('BaseComponent', lambda d: implies(d is not self, d.placed_workplace is old(d.placed_workplace))))")],
         modifies=["BaseComponent.placed_workplace"],
         loops={0: [("self", "self.placed_workplace is placed_workplace"),
                    ("done", "forall_int(0, _i, lambda k: forall_obj('BaseComponent', lambda d: implies(ghost_rel('desc', self.child_component_list[k], d), d.placed_workplace is placed_workplace)))"),
                    ("nothing-else", "forall_obj('BaseComponent', lambda d: implies(not ghost_rel('desc', self, d), d.placed_workplace is old(d.placed_workplace)))"),
                    ("flag", "set_to_all_children")]})

