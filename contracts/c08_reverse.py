"""C08 — reverse_log_information: every log is mirrored (same length, entry k <- entry n-1-k), nothing else changes."""

define("mirrored(L1, L0)", "len(L1) == len(L0) and forall_int(0, len(L0), lambda k: L1[k] == L0[len(L0) - 1 - k])")


def leaf(cls, logs):
    contract(cls + ".reverse_log_information", props=["C08", "C17"],
             ensures=[("mirrored", " and ".join("mirrored(self.%s, old(self.%s))" % (l, l) for l in logs))],
             modifies=["%s.%s@self" % (cls, l) for l in logs])


leaf("BaseTask", ["remaining_work_amount_record_list", "state_record_list", "allocated_worker_id_record", "allocated_facility_id_record"])
leaf("BaseComponent", ["state_record_list", "placed_workplace_id_record"])
leaf("BaseWorker", ["state_record_list", "cost_list", "assigned_task_id_record"])
leaf("BaseFacility", ["state_record_list", "cost_list", "assigned_task_id_record"])


def agg(owner, attr, mem, mem_logs, own_logs=()):
    L = "self." + attr
    m_ok = " and ".join("mirrored(m.%s, old(m.%s))" % (l, l) for l in mem_logs)
    m_kept = " and ".join("same(m.%s, old(m.%s))" % (l, l) for l in mem_logs)
    own = [("own-logs", " and ".join("mirrored(self.%s, old(self.%s))" % (l, l) for l in own_logs))] if own_logs else []
    contract("%s.reverse_log_information" % owner, props=["C08", "C17"],
             requires=["forall(%s, lambda m: m is not None)" % L, "distinct_list(%s)" % L],
             ensures=own + [("every-member-mirrored-once", "forall(%s, lambda m: %s)" % (L, m_ok))],
             modifies=["%s.%s@self" % (owner, l) for l in own_logs] + ["%s.%s@%s" % (mem, l, L) for l in mem_logs],
             loops={0: [("done", "forall_int(0, _i, lambda k: let(%s[k], lambda m: %s))" % (L, m_ok)),
                        ("todo", "forall_int(_i, len(%s), lambda k: let(%s[k], lambda m: %s))" % (L, L, m_kept)),
                        ("frame", " and ".join("unchanged_except('%s.%s', %s)" % (mem, l, L) for l in mem_logs))]
                       + ([("own", " and ".join("mirrored(self.%s, old(self.%s))" % (l, l) for l in own_logs))] if own_logs else [])})


agg("BaseWorkflow", "task_list", "BaseTask", ["remaining_work_amount_record_list", "state_record_list", "allocated_worker_id_record", "allocated_facility_id_record"])
agg("BaseProduct", "component_list", "BaseComponent", ["state_record_list", "placed_workplace_id_record"])
agg("BaseTeam", "worker_list", "BaseWorker", ["state_record_list", "cost_list", "assigned_task_id_record"], ["cost_list"])
agg("BaseWorkplace", "facility_list", "BaseFacility", ["state_record_list", "cost_list", "assigned_task_id_record"], ["cost_list", "placed_component_id_record"])

define("worker_mirrored(m)", "mirrored(m.state_record_list, old(m.state_record_list)) and mirrored(m.cost_list, old(m.cost_list)) and mirrored(m.assigned_task_id_record, old(m.assigned_task_id_record))")
define("facility_mirrored(m)", "mirrored(m.state_record_list, old(m.state_record_list)) and mirrored(m.cost_list, old(m.cost_list)) and mirrored(m.assigned_task_id_record, old(m.assigned_task_id_record))")
define("team_mirrored(t)", "mirrored(t.cost_list, old(t.cost_list)) and forall(t.worker_list, lambda m: worker_mirrored(m))")
define("workplace_mirrored(p)", "mirrored(p.cost_list, old(p.cost_list)) and mirrored(p.placed_component_id_record, old(p.placed_component_id_record))"
                                " and forall(p.facility_list, lambda m: facility_mirrored(m))")
define("team_logs_kept(t)", "same(t.cost_list, old(t.cost_list)) and forall(t.worker_list, lambda m: same(m.state_record_list, old(m.state_record_list))"
                            " and same(m.cost_list, old(m.cost_list)) and same(m.assigned_task_id_record, old(m.assigned_task_id_record)))")
define("workplace_logs_kept(p)", "same(p.cost_list, old(p.cost_list)) and same(p.placed_component_id_record, old(p.placed_component_id_record))"
                                 " and forall(p.facility_list, lambda m: same(m.state_record_list, old(m.state_record_list))"
                                 " and same(m.cost_list, old(m.cost_list)) and same(m.assigned_task_id_record, old(m.assigned_task_id_record)))")
WLOGS = ["BaseWorker.state_record_list", "BaseWorker.cost_list", "BaseWorker.assigned_task_id_record"]
FLOGS = ["BaseFacility.state_record_list", "BaseFacility.cost_list", "BaseFacility.assigned_task_id_record"]
contract("BaseOrganization.reverse_log_information", props=["C08", "C17"],
         requires=["org_wf(self)"],
         ensures=[("own", "mirrored(self.cost_list, old(self.cost_list))"),
                  ("teams", "forall(self.team_list, lambda t: team_mirrored(t))"),
                  ("workplaces", "forall(self.workplace_list, lambda p: workplace_mirrored(p))")],
         modifies=["BaseOrganization.cost_list@self", "BaseTeam.cost_list@self.team_list", "BaseWorkplace.cost_list@self.workplace_list",
                   "BaseWorkplace.placed_component_id_record@self.workplace_list"] + WLOGS + FLOGS,
         loops={0: [("own", "mirrored(self.cost_list, old(self.cost_list))"),
                    ("done", "forall_int(0, _i, lambda k: team_mirrored(self.team_list[k]))"),
                    ("todo", "forall_int(_i, len(self.team_list), lambda k: team_logs_kept(self.team_list[k]))"),
                    ("rest", " and ".join("unchanged('%s')" % f for f in FLOGS) + " and unchanged('BaseWorkplace.cost_list') and unchanged('BaseWorkplace.placed_component_id_record')"),
                    ("frame", "unchanged_except('BaseTeam.cost_list', self.team_list)")],
                1: [("own", "mirrored(self.cost_list, old(self.cost_list))"),
                    ("teams", "forall(self.team_list, lambda t: team_mirrored(t))"),
                    ("done", "forall_int(0, _i, lambda k: workplace_mirrored(self.workplace_list[k]))"),
                    ("todo", "forall_int(_i, len(self.workplace_list), lambda k: workplace_logs_kept(self.workplace_list[k]))"),
                    ("frame", "unchanged_except('BaseWorkplace.cost_list', self.workplace_list) and unchanged_except('BaseWorkplace.placed_component_id_record', self.workplace_list)")]})

contract("BaseProject.reverse_log_information", props=["C08", "C17"],
         requires=["proj_refs(self)"],
         ensures=[("own", "mirrored(self.cost_list, old(self.cost_list))"),
                  ("organization", "mirrored(self.organization.cost_list, old(self.organization.cost_list))"
                                   " and forall(self.organization.team_list, lambda t: team_mirrored(t)) and forall(self.organization.workplace_list, lambda p: workplace_mirrored(p))"),
                  ("tasks", "forall(self.workflow.task_list, lambda m: mirrored(m.state_record_list, old(m.state_record_list))"
                            " and mirrored(m.remaining_work_amount_record_list, old(m.remaining_work_amount_record_list))"
                            " and mirrored(m.allocated_worker_id_record, old(m.allocated_worker_id_record))"
                            " and mirrored(m.allocated_facility_id_record, old(m.allocated_facility_id_record)))"),
                  ("components", "forall(self.product.component_list, lambda m: mirrored(m.state_record_list, old(m.state_record_list))"
                                 " and mirrored(m.placed_workplace_id_record, old(m.placed_workplace_id_record)))"),
                  # the absence steps are mapped to the mirrored time axis
                  ("absence-steps-mirrored", "forall(self.absence_time_list, lambda a: a >= 0 and exists(old(self.absence_time_list), lambda b: a == old(len(self.cost_list)) - b - 1))")],
         modifies=["BaseProject.cost_list@self", "BaseProject.absence_time_list@self", "BaseOrganization.cost_list", "BaseTeam.cost_list", "BaseWorkplace.cost_list",
                   "BaseWorkplace.placed_component_id_record", "BaseComponent.state_record_list", "BaseComponent.placed_workplace_id_record",
                   "BaseTask.state_record_list", "BaseTask.remaining_work_amount_record_list", "BaseTask.allocated_worker_id_record",
                   "BaseTask.allocated_facility_id_record"] + WLOGS + FLOGS)
