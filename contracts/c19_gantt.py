"""C19 — run-length encoders (get_time_list_for_gannt_chart) of task, component, worker, facility."""

# entry = (start, length);  end(entry) = start + length - margin + 1  (exclusive end of the run).
# The proof treats finish_margin as an integer: with a real-valued margin every solver here (z3 4.8/5.1, cvc5)
# diverges on the mixed integer/real obligations (an ite below to_int / is_int is never case-split).  The
# generalisation to real margins is the static obligation `static:margin-additive` (the parameter occurs only as
# `+ finish_margin` in an emitted length, never in a test or index), see contracts/static_checks.py.
define("rl_end(ent, m)", "ent[0] + ent[1] - m + 1")

# X encodes exactly the maximal runs of state q in L[0:b): split into clauses so that a failure names one
define("rl_shape(X, b, m)", """forall_int(0, len(X), lambda j: 0 <= X[j][0] and X[j][0] < rl_end(X[j], m) and rl_end(X[j], m) <= b)""")
define("rl_inside(X, L, q, m)", """forall_int(0, len(X), lambda j:
        forall_int(X[j][0], rl_end(X[j], m), lambda k: L[k] == q))""")
define("rl_maximal(X, L, q, m)", """forall_int(0, len(X), lambda j:
        (X[j][0] == 0 or L[X[j][0] - 1] != q)
        and (rl_end(X[j], m) == len(L) or L[rl_end(X[j], m)] != q))""")
define("rl_ordered(X, m)", """forall_int(0, len(X) - 1, lambda j: rl_end(X[j], m) <= X[j + 1][0])""")
# coverage without an existential: no element equal to q lies in a gap before/between/after the entries (up to b)
define("rl_cover(X, L, q, b, m)", """
        forall_int(0, (X[0][0] if len(X) > 0 else b), lambda k: L[k] != q)
        and forall_int(0, len(X) - 1, lambda j: forall_int(rl_end(X[j], m), X[j + 1][0], lambda k: L[k] != q))
        and implies(len(X) > 0, forall_int(rl_end(X[len(X) - 1], m), b, lambda k: L[k] != q))""")

def runs_clauses(prefix, X, L, q, b, m):
    return [
        (prefix + "-shape", "rl_shape(%s, %s, %s)" % (X, b, m)),
        (prefix + "-inside", "rl_inside(%s, %s, %s, %s)" % (X, L, q, m)),
        (prefix + "-maximal", "rl_maximal(%s, %s, %s, %s)" % (X, L, q, m)),
        (prefix + "-ordered", "rl_ordered(%s, %s)" % (X, m)),
        (prefix + "-cover", "rl_cover(%s, %s, %s, %s, %s)" % (X, L, q, b, m)),
    ]


def lifecycle_encoder(cls, E, members):
    """task / component encoder: previous_state starts as NONE, two result lists (READY runs, WORKING runs)"""
    L = "self.state_record_list"
    b = "(from_time if from_time >= 0 else _i)"
    inv = [
        ("to_time", "to_time == -1"),
        ("loopvar", "implies(_i > 0, time == _i - 1)"),
        ("prev", "previous_state == (%s.NONE if _i == 0 else %s[_i - 1])" % (E, L)),
        ("from-range", "from_time >= -1 and from_time < _i + (1 if _i == 0 else 0)"),
        ("nothing-yet", "implies(from_time == -1, forall_int(0, _i, lambda k: %s[k] == %s.NONE))" % (L, E)),
        ("open-run", "implies(from_time >= 0, forall_int(from_time, _i, lambda k: %s[k] == previous_state)"
                     " and (from_time == 0 or %s[from_time - 1] != %s[from_time]))" % (L, L, L)),
    ] + runs_clauses("ready", "ready_time_list", L, E + ".READY", b, "finish_margin") \
      + runs_clauses("working", "working_time_list", L, E + ".WORKING", b, "finish_margin")
    contract(cls + ".get_time_list_for_gannt_chart",
             props=["C19"],
             types={"finish_margin": "Int"},
             returns="Tuple[List[Tuple[Int,Int]],List[Tuple[Int,Int]]]",
             # domain: every member of the enum (the property quantifies over all state sequences)
             requires=["forall(%s, lambda s: %s)" % (L, " or ".join("s == %s.%s" % (E, m) for m in members))],
             ensures=runs_clauses("ready", "result[0]", L, E + ".READY", "len(%s)" % L, "finish_margin")
                     + runs_clauses("working", "result[1]", L, E + ".WORKING", "len(%s)" % L, "finish_margin"),
             modifies=[], pure=True,
             loops={0: inv})


def resource_encoder(cls, E, members):
    """worker / facility encoder: previous_state starts as None, three result lists (FREE, WORKING, ABSENCE runs)"""
    L = "self.state_record_list"
    b = "(from_time if from_time >= 0 else _i)"
    inv = [
        ("to_time", "to_time == -1"),
        ("loopvar", "implies(_i > 0, time == _i - 1)"),
        ("prev", "previous_state == (None if _i == 0 else %s[_i - 1])" % L),
        ("from-range", "from_time >= -1 and from_time < _i + (1 if _i == 0 else 0)"),
        ("nothing-yet", "(from_time == -1) == (_i == 0)"),
        ("open-run", "implies(from_time >= 0, forall_int(from_time, _i, lambda k: %s[k] == previous_state)"
                     " and (from_time == 0 or %s[from_time - 1] != %s[from_time]))" % (L, L, L)),
    ] + runs_clauses("free", "ready_time_list", L, E + ".FREE", b, "finish_margin") \
      + runs_clauses("working", "working_time_list", L, E + ".WORKING", b, "finish_margin") \
      + runs_clauses("absence", "absence_time_list", L, E + ".ABSENCE", b, "finish_margin")
    contract(cls + ".get_time_list_for_gannt_chart",
             props=["C19"],
             types={"finish_margin": "Int"},
             returns="Tuple[List[Tuple[Int,Int]],List[Tuple[Int,Int]],List[Tuple[Int,Int]]]",
             requires=["forall(%s, lambda s: %s)" % (L, " or ".join("s == %s.%s" % (E, m) for m in members))],
             ensures=runs_clauses("free", "result[0]", L, E + ".FREE", "len(%s)" % L, "finish_margin")
                     + runs_clauses("working", "result[1]", L, E + ".WORKING", "len(%s)" % L, "finish_margin")
                     + runs_clauses("absence", "result[2]", L, E + ".ABSENCE", "len(%s)" % L, "finish_margin"),
             modifies=[], pure=True,
             loops={0: inv})


lifecycle_encoder("BaseTask", "BaseTaskState", ["NONE", "READY", "WORKING", "FINISHED", "WORKING_ADDITIONALLY"])
lifecycle_encoder("BaseComponent", "BaseComponentState", ["NONE", "READY", "WORKING", "FINISHED", "REMOVED"])
resource_encoder("BaseWorker", "BaseWorkerState", ["FREE", "WORKING", "ABSENCE"])
resource_encoder("BaseFacility", "BaseFacilityState", ["FREE", "WORKING", "ABSENCE"])
