"""C19 — run-length encoders (get_time_list_for_gannt_chart) of task, component, worker, facility."""

# entry = (start, length);  end(entry) = start + length - margin + 1  (exclusive end of the run).
# The proof treats finish_margin as an integer: with a real-valued margin every solver here (z3 4.8/5.1, cvc5)
# diverges on the mixed integer/real obligations (an ite below to_int / is_int is never case-split).  The
# generalisation to real margins is the static obligation `static:margin-additive` (the parameter occurs only as
# `+ finish_margin` in an emitted length, never in a test or index), see contracts/static_checks.py.
define("rl_end(ent, m)", "ent[0] + ent[1] - m + 1")

# X encodes exactly the maximal runs of state q in L[0:b): split into clauses so that a failure names one
define("rl_shape(X, b, m)", """forall_int(0, len(X), lambda j: 0 <= X[j][0] and X[j][0] < rl_end(X[j], m) and rl_end(X[j], m) <= b)""")
define("rl_inside(X, L, q, m)", """forall_int(0, len(X), lambda j:
        forall_int(X[j][0], rl_end(X[j], m), lambda k: L[k] == q))""")
define("rl_maximal(X, L, q, m)", """forall_int(0, len(X), lambda j:
        (X[j][0] == 0 or L[X[j][0] - 1] != q)
        and (rl_end(X[j], m) == len(L) or L[rl_end(X[j], m)] != q))""")
define("rl_ordered(X, m)", """forall_int(0, len(X) - 1, lambda j: rl_end(X[j], m) <= X[j + 1][0])""")
# coverage without an existential: no element equal to q lies in a gap before/between/after the entries (up to b)
define("rl_cover(X, L, q, b, m)", """
        forall_int(0, (X[0][0] if len(X) > 0 else b), lambda k: L[k] != q)
        and forall_int(0, len(X) - 1, lambda j: forall_int(rl_end(X[j], m), X[j + 1][0], lambda k: L[k] != q))
        and implies(len(X) > 0, forall_int(rl_end(X[len(X) - 1], m), b, lambda k: L[k] != q))""")

def runs_clauses(prefix, X, L, q, b, m):
    return [
        (prefix + "-shape", "rl_shape(%s, %s, %s)" % (X, b, m)),
        (prefix + "-inside", "rl_inside(%s, %s, %s, %s)" % (X, L, q, m)),
        (prefix + "-maximal", "rl_maximal(%s, %s, %s, %s)" % (X, L, q, m)),
        (prefix + "-ordered", "rl_ordered(%s, %s)" % (X, m)),
        (prefix + "-cover", "rl_cover(%s, %s, %s, %s, %s)" % (X, L, q, b, m)),
    ]

TASK_INV = [
    ("to_time", "to_time == -1"),
    ("loopvar", "implies(_i > 0, time == _i - 1)"),
    ("prev", "previous_state == (BaseTaskState.NONE if _i == 0 else self.state_record_list[_i - 1])"),
    ("from-range", "from_time >= -1 and from_time < _i + (1 if _i == 0 else 0)"),
    ("nothing-yet", "implies(from_time == -1, forall_int(0, _i, lambda k: self.state_record_list[k] == BaseTaskState.NONE))"),
    ("open-run", "implies(from_time >= 0, forall_int(from_time, _i, lambda k: self.state_record_list[k] == previous_state)"
                 " and (from_time == 0 or self.state_record_list[from_time - 1] != self.state_record_list[from_time]))"),
] + runs_clauses("ready", "ready_time_list", "self.state_record_list", "BaseTaskState.READY", "(from_time if from_time >= 0 else _i)", "finish_margin") \
  + runs_clauses("working", "working_time_list", "self.state_record_list", "BaseTaskState.WORKING", "(from_time if from_time >= 0 else _i)", "finish_margin")

contract("BaseTask.get_time_list_for_gannt_chart",
         props=["C19"],
         types={"finish_margin": "Int"},
         returns="Tuple[List[Tuple[Int,Int]],List[Tuple[Int,Int]]]",
         requires=["forall(self.state_record_list, lambda s: s == BaseTaskState.NONE or s == BaseTaskState.READY"
                   " or s == BaseTaskState.WORKING or s == BaseTaskState.FINISHED or s == BaseTaskState.WORKING_ADDITIONALLY)"],
         ensures=runs_clauses("ready", "result[0]", "self.state_record_list", "BaseTaskState.READY", "len(self.state_record_list)", "finish_margin")
                 + runs_clauses("working", "result[1]", "self.state_record_list", "BaseTaskState.WORKING", "len(self.state_record_list)", "finish_margin"),
         modifies=[],
         loops={0: TASK_INV})
