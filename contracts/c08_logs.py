"""C08 — every log gets exactly one entry per recorded step, equal to the live value (record_* / record / initialize)."""

define("shown_task_state(t, working)", "ite(not working and t.state == BaseTaskState.WORKING, BaseTaskState.READY, t.state)")
define("shown_component_state(c, working)", "ite(not working and c.state == BaseComponentState.WORKING, BaseComponentState.READY, c.state)")
define("kept(L1, L0)", "same(L1, L0)")

# ------------------------------------------------------------------------------------------------ leaves
contract("BaseTask.record_state", props=["C08", "C01"], types={"working": "Bool"},
         ensures=[("one-entry", "appended(self.state_record_list, old(self.state_record_list), shown_task_state(self, working))")],
         modifies=["BaseTask.state_record_list@self"])
contract("BaseTask.record_remaining_work_amount", props=["C08", "C02"],
         ensures=[("one-entry", "appended(self.remaining_work_amount_record_list, old(self.remaining_work_amount_record_list), self.remaining_work_amount)")],
         modifies=["BaseTask.remaining_work_amount_record_list@self"])
contract("BaseTask.record_allocated_workers_facilities_id", props=["C08", "C03"],
         requires=["forall(self.allocated_worker_list, lambda w: w is not None)", "forall(self.allocated_facility_list, lambda f: f is not None)"],
         ensures=[("workers", "appended(self.allocated_worker_id_record, old(self.allocated_worker_id_record), [w.ID for w in self.allocated_worker_list])"),
                  ("facilities", "appended(self.allocated_facility_id_record, old(self.allocated_facility_id_record), [f.ID for f in self.allocated_facility_list])")],
         modifies=["BaseTask.allocated_worker_id_record@self", "BaseTask.allocated_facility_id_record@self"])
contract("BaseComponent.record_placed_workplace_id", props=["C08", "C13"],
         ensures=[("one-entry", "appended(self.placed_workplace_id_record, old(self.placed_workplace_id_record),"
                                " (None if self.placed_workplace is None else self.placed_workplace.ID))")],
         modifies=["BaseComponent.placed_workplace_id_record@self"])
for cls, st in (("BaseWorker", "BaseWorkerState"), ("BaseFacility", "BaseFacilityState")):
    contract(cls + ".record_state", props=["C08", "C10"], types={"working": "Bool"},
             ensures=[("one-entry", "appended(self.state_record_list, old(self.state_record_list), (self.state if working else %s.ABSENCE))" % st)],
             modifies=[cls + ".state_record_list@self"])
    contract(cls + ".record_assigned_task_id", props=["C08", "C03"],
             requires=["forall(self.assigned_task_list, lambda t: t is not None)"],
             ensures=[("one-entry", "appended(self.assigned_task_id_record, old(self.assigned_task_id_record), [t.ID for t in self.assigned_task_list])")],
             modifies=[cls + ".assigned_task_id_record@self"])
contract("BaseWorkplace.record_placed_component_id", props=["C08", "C13"],
         requires=["forall(self.placed_component_list, lambda c: c is not None)"],
         ensures=[("one-entry", "appended(self.placed_component_id_record, old(self.placed_component_id_record), [c.ID for c in self.placed_component_list])")],
         modifies=["BaseWorkplace.placed_component_id_record@self"])

# ------------------------------------------------------------------------------------------------ aggregators
define("task_logged(t, working)",
       "appended(t.state_record_list, old(t.state_record_list), shown_task_state(t, working))"
       " and appended(t.remaining_work_amount_record_list, old(t.remaining_work_amount_record_list), t.remaining_work_amount)"
       " and appended(t.allocated_worker_id_record, old(t.allocated_worker_id_record), [w.ID for w in t.allocated_worker_list])"
       " and appended(t.allocated_facility_id_record, old(t.allocated_facility_id_record), [f.ID for f in t.allocated_facility_list])")
define("task_logs_kept(t)",
       "kept(t.state_record_list, old(t.state_record_list)) and kept(t.remaining_work_amount_record_list, old(t.remaining_work_amount_record_list))"
       " and kept(t.allocated_worker_id_record, old(t.allocated_worker_id_record)) and kept(t.allocated_facility_id_record, old(t.allocated_facility_id_record))")
TASK_LOGS = ["BaseTask.state_record_list", "BaseTask.remaining_work_amount_record_list", "BaseTask.allocated_worker_id_record",
             "BaseTask.allocated_facility_id_record"]
contract("BaseWorkflow.record", props=["C08"], types={"working": "Bool"},
         requires=["wf_alloc(self)", "distinct_list(self.task_list)"],
         ensures=[("every-task-logged-once", "forall(self.task_list, lambda t: task_logged(t, working))")],
         modifies=[f + "@self.task_list" for f in TASK_LOGS],
         loops={0: [("done", "forall_int(0, _i, lambda k: task_logged(self.task_list[k], working))"),
                    ("todo", "forall_int(_i, len(self.task_list), lambda k: task_logs_kept(self.task_list[k]))"),
                    ("frame", " and ".join("unchanged_except('%s', self.task_list)" % f for f in TASK_LOGS))]})

define("component_logged(c, working)",
       "appended(c.state_record_list, old(c.state_record_list), shown_component_state(c, working))"
       " and appended(c.placed_workplace_id_record, old(c.placed_workplace_id_record), (None if c.placed_workplace is None else c.placed_workplace.ID))")
define("component_logs_kept(c)", "kept(c.state_record_list, old(c.state_record_list)) and kept(c.placed_workplace_id_record, old(c.placed_workplace_id_record))")
COMP_LOGS = ["BaseComponent.state_record_list", "BaseComponent.placed_workplace_id_record"]
contract("BaseProduct.record", props=["C08"], types={"working": "Bool"},
         requires=["forall(self.component_list, lambda c: c is not None)", "distinct_list(self.component_list)"],
         ensures=[("every-component-logged-once", "forall(self.component_list, lambda c: component_logged(c, working))")],
         modifies=[f + "@self.component_list" for f in COMP_LOGS],
         loops={0: [("done", "forall_int(0, _i, lambda k: component_logged(self.component_list[k], working))"),
                    ("todo", "forall_int(_i, len(self.component_list), lambda k: component_logs_kept(self.component_list[k]))"),
                    ("frame", " and ".join("unchanged_except('%s', self.component_list)" % f for f in COMP_LOGS))]})


def member_recorders(owner, attr, mem, st):
    L = "self." + attr
    contract("%s.record_assigned_task_id" % owner, props=["C08"],
             requires=["forall(%s, lambda m: m is not None and forall(m.assigned_task_list, lambda t: t is not None))" % L, "distinct_list(%s)" % L],
             ensures=[("each-member", "forall(%s, lambda m: appended(m.assigned_task_id_record, old(m.assigned_task_id_record), [t.ID for t in m.assigned_task_list]))" % L)],
             modifies=["%s.assigned_task_id_record@%s" % (mem, L)],
             loops={0: [("done", "forall_int(0, _i, lambda k: let(%s[k], lambda m: appended(m.assigned_task_id_record, old(m.assigned_task_id_record), [t.ID for t in m.assigned_task_list])))" % L),
                        ("todo", "forall_int(_i, len(%s), lambda k: kept(%s[k].assigned_task_id_record, old(%s[k].assigned_task_id_record)))" % (L, L, L)),
                        ("frame", "unchanged_except('%s.assigned_task_id_record', %s)" % (mem, L))]})
    fn = "record_all_worker_state" if mem == "BaseWorker" else "record_all_facility_state"
    contract("%s.%s" % (owner, fn), props=["C08", "C10"], types={"working": "Bool"},
             requires=["forall(%s, lambda m: m is not None)" % L, "distinct_list(%s)" % L],
             ensures=[("each-member", "forall(%s, lambda m: appended(m.state_record_list, old(m.state_record_list), (m.state if working else %s.ABSENCE)))" % (L, st))],
             modifies=["%s.state_record_list@%s" % (mem, L)],
             loops={0: [("done", "forall_int(0, _i, lambda k: let(%s[k], lambda m: appended(m.state_record_list, old(m.state_record_list), (m.state if working else %s.ABSENCE))))" % (L, st)),
                        ("todo", "forall_int(_i, len(%s), lambda k: kept(%s[k].state_record_list, old(%s[k].state_record_list)))" % (L, L, L)),
                        ("frame", "unchanged_except('%s.state_record_list', %s)" % (mem, L))]})


member_recorders("BaseTeam", "worker_list", "BaseWorker", "BaseWorkerState")
member_recorders("BaseWorkplace", "facility_list", "BaseFacility", "BaseFacilityState")
