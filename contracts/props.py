"""Which units (functions under contract, bounded stand-ins, static obligations) decide which property."""

PROPS = {
    "C19": {
        "inv": ["BaseTask.get_time_list_for_gannt_chart"],
        "bounded": [],
        "static": [],
        "explanation": "run-length encoders, row builders, state queries and set_last_datetime against their specification",
    },
}
