"""Which units (functions under contract, bounded stand-ins, static obligations) decide which property."""

COMMON_STATIC = ["plain_attributes", "schema_complete"]

C19_QUERIES = []
for owner, kind, states in (("BaseWorkflow", "task", ["none", "ready", "working", "finished"]),
                            ("BaseProduct", "component", ["none", "ready", "working", "finished"]),
                            ("BaseTeam", "worker", ["free", "working"]),
                            ("BaseWorkplace", "facility", ["free", "working"])):
    C19_QUERIES.append("%s.__extract_state_%s_list" % (owner, kind))
    for s in states:
        C19_QUERIES.append("%s.extract_%s_%s_list" % (owner, s, kind))

PROPS = {
    "C19": {
        "inv": ["BaseTask.get_time_list_for_gannt_chart", "BaseComponent.get_time_list_for_gannt_chart",
                "BaseWorker.get_time_list_for_gannt_chart", "BaseFacility.get_time_list_for_gannt_chart",
                "BaseTask.create_data_for_gantt_plotly", "BaseComponent.create_data_for_gantt_plotly",
                "BaseProject.set_last_datetime"] + C19_QUERIES,
        "bounded": [],
        "static": COMMON_STATIC + ["c19_margin_additive"],
        "assumptions": [
            "finish_margin is an integer in the encoder/row proofs; static:margin-additive shows the parameter is only "
            "added to emitted lengths, so results for a real margin m are the integer-margin results shifted by m",
            "datetime/timedelta arithmetic: uninterpreted additive action, strftime uninterpreted (trusted, DESIGN 2.6)",
            "extract_*_list: requested times are >= 0 (negative indices would wrap around in python)",
            "not under contract: row builders of team/workplace (per-member concatenation) and the concatenating "
            "create_data_for_gantt_plotly of workflow/product/organization",
        ],
        "level_text": "Every listed function is verified against its contract for all inputs (all log lengths and contents over "
                      "every enum member, all time lists, dates, units) by loop invariants: no unrolling bound. A failing "
                      "obligation names the clause (e.g. working-cover) and is replayed on the real classes.",
        "level_note": "Trusted: pyvc VC generator, z3/cvc5, builtin axioms (enumerate, list.append, set, list(set)), datetime as "
                      "uninterpreted additive action; finish_margin integer in the proof + static additivity argument; floats as reals.",
        "design_ref": "DESIGN.md section 6 C19",
        "explanation": "run-length encoders (all enum members), row builders of task/component, state queries and "
                       "set_last_datetime against their specification, unbounded (loop invariants)",
    },

    "C01": {
        "inv": ["BaseWorkflow.__check_ready", "BaseWorkflow.__check_working", "BaseWorkflow.__check_finished",
                "BaseTask.record_state", "BaseTask.initialize", "BaseWorkflow.initialize", "BaseProject.simulate"],
        "static": COMMON_STATIC,
        "level_text": "The three state-changing phases of a step are verified against two-state contracts for every workflow, "
                      "every mix of FS/SS/FF/SF links and EVERY iteration order of the internal task sets (set loops are cut at "
                      "invariants over an arbitrary enumeration): a task changes state only NONE->READY, READY->WORKING, "
                      "WORKING->FINISHED and only through the gate the property states; the log display rule is verified.",
        "level_note": "Composition: the body of BaseProject.simulate is executed against the phase contracts; the step clause "
                      "`lifecycle-only-advances` is an obligation of every iteration of the main loop (all run lengths). The allocation "
                      "phase enters through an assumed contract (frame: it does not write BaseTask.state). Trusted: pyvc, z3/cvc5, set/filter axioms, A6.",
        "design_ref": "DESIGN.md section 6 C01",
        "assumptions": ["preconditions: task/worker/facility references are not None; resources of a task are held exclusively (C03 a,b) when __check_finished runs",
                        "BaseProject.__allocate and BaseProduct.check_removing_placed_workplace enter the composition through assumed frames (they do not write BaseTask.state; checked syntactically by static:frames)",
                        "the statement over recorded logs follows from the step clause plus C08 (last entry = live state); that derivation is not mechanised"],
        "explanation": "two-state contracts of __check_ready/__check_working/__check_finished, arbitrary set order",
    },
    "C02": {
        "inv": ["BaseWorker.has_workamount_skill", "BaseFacility.has_workamount_skill", "BaseWorker.has_facility_skill",
                "BaseWorker.get_work_amount_skill_progress", "BaseFacility.get_work_amount_skill_progress",
                "BaseTask.perform", "BaseWorkflow.perform", "BaseWorkflow.__check_finished", "BaseWorkflow.__check_working",
                "BaseTask.record_remaining_work_amount", "BaseComponent.update_error_value", "BaseTask.initialize"],
        "static": COMMON_STATIC,
        "level_text": "perform() is verified for all allocations, skills and states: remaining work of a WORKING task drops by exactly "
                      "the unit rate (automatic), the sum of present skilled workers' skills, or the sum of worker x facility products "
                      "over pairs; any other task is untouched; an absent or unskilled resource contributes 0; __check_finished "
                      "finishes only at remaining < tol and reports 0. Sums are prefix-sum functions proved by loop invariants.",
        "level_note": "Deterministic skills (sd = 0) and exclusive holding (C03) are preconditions. Products of two symbolic reals and "
                      "division by a symbolic count are uninterpreted (x/1 = x). Floats as reals. Step composition over simulate pending.",
        "design_ref": "DESIGN.md section 6 C02",
        "assumptions": ["np.random.normal(mean, 0) == mean", "BaseWorker.get_quality_skill_point: trusted contract (no effect on any property; feeds BaseComponent.error only)",
                        "not yet discharged: initial remaining (BaseTask.initialize) and the per-step log relation over simulate"],
        "explanation": "perform / skill progress / finish threshold",
    },
    "C07": {
        "inv": ["BaseTeam.add_labor_cost", "BaseWorkplace.add_labor_cost", "BaseOrganization.add_labor_cost", "BaseProject.simulate"],
        "static": COMMON_STATIC,
        "level_text": "The add_labor_cost chain is verified for all organizations, cost rates, states and flag combinations: every "
                      "worker/facility gets exactly one entry (cost_per_time iff WORKING under only_working, 0 in zero mode), each "
                      "team/workplace entry is the sum over its members, the organization's entry and return value is the sum over "
                      "teams and workplaces (nested prefix sums, loop invariants, no bound).",
        "level_note": "Requires distinct members and no resource in two teams/workplaces (WF.distinct). The link project.cost_list == "
                      "organization.cost_list and the total-cost corollary need the simulate step composition (pending).",
        "design_ref": "DESIGN.md section 6 C07",
        "assumptions": ["not yet discharged: simulate appends the returned value to project.cost_list; zero mode exactly on absence steps"],
        "explanation": "cost accounting chain",
    },
    "C08": {
        "inv": ["BaseTask.record_state", "BaseTask.record_remaining_work_amount", "BaseTask.record_allocated_workers_facilities_id",
                "BaseComponent.record_placed_workplace_id", "BaseComponent.record_state",
                "BaseWorker.record_state", "BaseWorker.record_assigned_task_id", "BaseFacility.record_state",
                "BaseFacility.record_assigned_task_id", "BaseWorkplace.record_placed_component_id",
                "BaseWorkflow.record", "BaseProduct.record", "BaseTeam.record_assigned_task_id", "BaseTeam.record_all_worker_state",
                "BaseWorkplace.record_assigned_task_id", "BaseWorkplace.record_all_facility_state", "BaseComponent.initialize",
                "BaseTask.initialize", "BaseWorker.initialize", "BaseFacility.initialize", "BaseTeam.initialize",
                "BaseWorkplace.initialize", "BaseProduct.initialize", "BaseTask.reverse_log_information", "BaseComponent.reverse_log_information", "BaseWorker.reverse_log_information", "BaseFacility.reverse_log_information", "BaseWorkflow.reverse_log_information", "BaseProduct.reverse_log_information", "BaseTeam.reverse_log_information", "BaseWorkplace.reverse_log_information", "BaseOrganization.reverse_log_information", "BaseProject.reverse_log_information",
                "BaseProject.simulate", "BaseProject.initialize", "BaseWorkflow.initialize", "BaseOrganization.initialize", "BaseOrganization.record",
                "BaseTeam.add_labor_cost", "BaseWorkplace.add_labor_cost", "BaseOrganization.add_labor_cost"],
        "static": COMMON_STATIC,
        "level_text": "Every record_* method is proved to append exactly one entry equal to the live attribute (with the display rule), "
                      "every aggregating record method to do so once for every member and nothing else (frames), for all models.",
        "level_note": "The representation invariant `aligned` over sequences of simulate/backward_simulate/initialize/reverse calls is "
                      "not yet composed; the log table static check is pending.",
        "design_ref": "DESIGN.md section 6 C08",
        "assumptions": ["not yet discharged: organization.record, initialize/reverse_log_information of all classes, aligned() over call sequences"],
        "explanation": "record methods",
    },
    "C14": {
        "inv": ["BaseComponent.check_state", "BaseComponent.initialize", "BaseProduct.check_state", "BaseComponent.record_state",
                "BaseProduct.initialize", "BaseProject.simulate"],
        "static": COMMON_STATIC,
        "level_text": "check_state is proved against the exact value table of the three-stage update and against each clause of the "
                      "property (FINISHED iff all tasks FINISHED, WORKING if any WORKING, never back to NONE, never out of FINISHED "
                      "while tasks stay finished) for every task list incl. empty; product.check_state applies it to every component.",
        "level_note": "Composition: `component-state-follows-tasks` is a step obligation of the main loop of simulate (the real body, with "
                      "product.check_state after every task-state change, executed against the phase contracts): it fails if a check is "
                      "dropped or moved. `never leaves FINISHED` additionally uses C01 (tasks never leave FINISHED); that combination is not a single obligation.",
        "design_ref": "DESIGN.md section 6 C14",
        "assumptions": ["task references not None; distinct components in product.component_list"],
        "explanation": "component state rule",
    },

    "C13": {
        "inv": ["BaseComponent.is_ready", "BaseWorkplace.can_put", "BaseWorkplace.get_available_space_size", "BaseWorkplace.get_total_workamount_skill",
                "BaseComponent.set_placed_workplace", "BaseWorkplace.set_placed_component", "BaseWorkplace.remove_placed_component",
                "BaseProject.__allocate@placement", "BaseProject.__allocate@facilities",
                "BaseComponent.record_placed_workplace_id", "BaseWorkplace.record_placed_component_id"],
        "static": COMMON_STATIC,
        "level_text": "The placement block of the allocation loop (base_project.py `if task.target_component is not None: ...`, cut out of "
                      "__allocate mechanically on every run and verified as one execution for an arbitrary task) is proved for all products, "
                      "capacities, input links and priority rules: a component is moved only while none of its tasks is WORKING, only into a "
                      "workplace of the task and of the organization, from one of the declared input workplaces or from nowhere, only if "
                      "can_put held (space taken + its size < capacity + 1e-8), is listed where it is placed and delisted where it was, "
                      "its whole subtree is relabelled, and no other component or workplace changes. The recursive set/remove functions "
                      "are proved over arbitrary product trees (ghost descendant relation and rank), can_put / available space / "
                      "is_ready against their definitions, and the two log writers against the live state.",
        "level_note": "The facility branch (block __allocate@facilities) is proved to give a task only facilities of the workplace where its "
                      "component is placed at that moment. Not decided: `moves at most once per step`, and hence that the component is still "
                      "there at the end of the pass (a second READY task of the same component can move it again: D7) - properties of the "
                      "whole allocation loop, which is not verified as one unit (its bounded stand-in did not terminate within budget); removal of finished top-level "
                      "components (check_removing_placed_workplace) is under an assumed frame contract only; the capacity clause counts "
                      "every listed component (children too), i.e. is at least as strict as the property's top-most counting. The assembly "
                      "branch (unplaced parent whose children are placed on their own) is excluded by precondition. Known findings: nested "
                      "components that move on their own break `subtree listed where the parent is placed` (D7b/D17).",
        "design_ref": "DESIGN.md section 6 C13, section 12.7",
        "assumptions": ["product structure is a forest (ghost `desc` relation with a strictly increasing rank; pairwise disjoint child subtrees)",
                        "block extraction drops the rest of __allocate: the enclosing `for task` loop, the sorting of tasks and the worker/facility allocation that follows",
                        "loop #2 of the block (removing separately placed children while iterating the list being edited) is excluded by precondition, not verified",
                        "BaseProduct.check_removing_placed_workplace: assumed frame contract"],
        "explanation": "placement block of __allocate and the placement functions",
    },

    "C03": {
        "inv": ["BaseWorker.check_update_state_from_absence_time_list", "BaseFacility.check_update_state_from_absence_time_list",
                "BaseTeam.check_update_state_from_absence_time_list", "BaseWorkplace.check_update_state_from_absence_time_list",
                "BaseOrganization.check_update_state_from_absence_time_list",
                "BaseWorkflow.__check_working", "BaseWorkflow.__check_finished", "BaseTask.can_add_resources",
                "BaseWorker.record_assigned_task_id", "BaseFacility.record_assigned_task_id",
                "BaseTask.record_allocated_workers_facilities_id",
                "BaseWorker.initialize", "BaseFacility.initialize", "BaseTask.initialize", "BaseProject.__allocate@workers",
                "BaseProject.__allocate@facilities", "BaseProject.__allocate@allocation"],
        "static": COMMON_STATIC,
        "level_text": "Function-level contracts, all inputs, arbitrary set order: release on finish (every resource a finishing task "
                      "held gets an empty assignment list and state FREE; nothing else is touched; exclusive two-way consistency is "
                      "preserved), resource state = ABSENCE/FREE/WORKING from absence list and assignment, READY->WORKING sets the "
                      "resources WORKING, a facility is only accepted while unassigned.",
        "level_note": "Both allocation branches of BaseProject.__allocate are verified as blocks (one execution for one task: a resource's own "
                      "list gets the task exactly when the task's list gets the resource; only offered, eligible resources; the allocation "
                      "statement gives an automatic task nothing), and simulate keeps `holds_exclusively` as a loop invariant given the "
                      "__allocate contract. Not proved: the loop invariant of the task loop inside __allocate that connects the blocks, so "
                      "__allocate as a whole still enters simulate as an assumed contract.",
        "design_ref": "DESIGN.md section 6 C03",
        "assumptions": ["not discharged: the loop invariant of the task loop of BaseProject.__allocate (block preconditions at every iteration); __allocate enters simulate as an assumed contract"],
        "explanation": "release, state-from-assignment, READY->WORKING resource states",
    },
    "C04": {
        "inv": ["BaseTask.can_add_resources", "BaseProject.__is_allocated_worker", "BaseProject.__is_allocated_facility",
                "BaseWorker.has_workamount_skill", "BaseFacility.has_workamount_skill", "BaseWorker.has_facility_skill",
                "BaseOrganization.check_update_state_from_absence_time_list", "BaseProject.simulate", "BaseProject.__allocate@workers",
                "BaseProject.__allocate@facilities", "BaseProject.__allocate@candidates"],
        "static": COMMON_STATIC,
        "level_text": "can_add_resources is proved equal to the eligibility predicate (state, solo rules both ways, fixed-ID lists, "
                      "unassigned facility, facility/worker/operator skills > tol) for all tasks/workers/facilities, and each clause of "
                      "the property is a proved consequence; the team/workplace membership tests are proved to mean `the resource's "
                      "team/workplace targets the task` under unique IDs.",
        "level_note": "Both allocation branches of __allocate are verified as blocks: every worker / facility that is added was offered as FREE, "
                      "is skilled for the task, belongs to a team / workplace that targets it (facilities: of the workplace where the component "
                      "is placed) and was accepted by can_add_resources; simulate proves at the call site that resource states are fresh from "
                      "the absence lists of that step. Not proved: the loop invariant of the task loop inside __allocate that connects the "
                      "blocks (block preconditions at every iteration).",
        "design_ref": "DESIGN.md section 6 C04",
        "assumptions": ["WF.ids: unique team/workplace IDs, every worker's team_id names a team of the organization",
                        "not yet discharged: the allocation loop only appends resources accepted by these predicates"],
        "explanation": "eligibility predicates",
    },
    "C11": {
        "inv": ["sort_task_list", "sort_worker_list", "sort_facility_list", "sort_workplace_list",
                "BaseWorkplace.get_available_space_size", "BaseProject.__allocate@candidates", "BaseProject.__allocate@workers"],
        "static": COMMON_STATIC,
        "level_text": "Each of the four sorting functions is proved, for every rule value and all lists (ties, missing map entries, "
                      "equal-but-not-identical ID strings: `is` is modelled as weaker than ==), to return a permutation of its input "
                      "ordered by the documented key of the rule (keys written from the documentation: slack, EST, SPT/LPT, FIFO = "
                      "number of READY log entries, LRPT/SRPT, LWRPT/SWRPT; MW/SSP/VC/HSV with tie-break tuples; FSS, SSP).",
        "level_note": "sorted() is axiomatised (stable, permutation, ordered by key); `permutation` is decided structurally (result is "
                      "an if-tree over sorted(input) / input). Clause (b): the statements of __allocate before its task loop (block "
                      "__allocate@candidates) are proved to hand the loop exactly the READY/WORKING tasks of the workflow, ordered by the "
                      "project's task priority rule (all nine rules), and only FREE workers of the organization; the loop itself visits that "
                      "list front to back (python semantics), and the no-facility branch takes every acceptable worker for the task at hand "
                      "(__allocate@workers), so a lower-priority task is never served before a higher-priority one within a pass. The "
                      "facility branch is not verified; that EVERY free worker is offered is not decided.",
        "design_ref": "DESIGN.md section 6 C11",
        "assumptions": ["float('inf') is an uninterpreted real constant; sum(dict.values()) is an uninterpreted function of the dict",
                        "block extraction drops the rest of __allocate; the composition `ordered list + front-to-back loop + exhaustive branch => no inversion` is an argument over three obligations, not one",
                        "not discharged: the facility branch of __allocate; completeness of the offered free-worker list"],
        "explanation": "sort functions against documented keys",
    },

    "C12": {
        "inv": ["BaseWorkflow.__set_est_eft_data", "BaseWorkflow.__set_lst_lft_criticalpath_data", "BaseWorkflow.update_PERT_data"],
        "bounded": [{"qual": "BaseWorkflow.update_PERT_data", "bound": 2, "nrefs": 3, "nstrs": 2, "deepen": False,   # bound 3 did not finish in 50 min

                     "force_inline": ["BaseWorkflow.__set_est_eft_data", "BaseWorkflow.__set_lst_lft_criticalpath_data"]}],
        "static": COMMON_STATIC,
        "level_text": "Unbounded part: frames and safety of the two PERT passes (only est/eft/lst/lft/critical_path_length are "
                      "written, no None dereference, max() never over an empty set). The Bellman equations of the property (est = "
                      "max(t, max over predecessors est+rem), eft = est+rem, critical path length = largest eft of a tail, lft = "
                      "min over successors lst / cpl for tails, lst = lft-rem, slack >= 0) are decided by the bounded stand-in: the "
                      "real passes executed symbolically over every finish-to-start DAG with <= 3 tasks, symbolic real remaining work "
                      "and ARBITRARY stale est/eft/lst/lft values, under every set iteration order.",
        "level_note": "bounded(3): the wave invariants for an unbounded proof need ghost state (touched set, witness) that the contract "
                      "language does not have yet. The equivalence Bellman equations <=> longest-chain wording is a DAG induction (not mechanised).",
        "design_ref": "DESIGN.md section 6 C12",
        "assumptions": ["FS-only acyclic network with a rank function, two-way consistent links, remaining work >= 0, a task without successors exists",
                        "bounded stand-in: <= 3 tasks, <= 3 edges per task"],
        "explanation": "PERT passes",
    },

    "C05": {
        "inv": ["BaseProject.simulate", "BaseProject.initialize", "BaseWorkflow.initialize", "BaseWorkflow.__check_ready",
                "BaseWorkflow.__check_working", "BaseWorkflow.__check_finished",
                # completion rests on allocation completeness: an eligible, acceptable worker is never passed over
                "BaseProject.__allocate@workers"],
        "static": COMMON_STATIC,
        "level_text": "Safety clauses, unbounded: BaseProject.simulate is verified against its contract with an inductive invariant of the "
                      "main loop (every model, every run length, every absence list): status is FINISHED_SUCCESS iff all tasks are "
                      "FINISHED at return, FINISHED_FAILURE only with time >= max_time, no step is simulated at or beyond max_time, "
                      "every step advances time by one. Completion clause: only its local lemmas are discharged (gate completeness of "
                      "__check_ready/__check_working/__check_finished incl. a started-and-finished predecessor; D1 fixed).",
        "level_note": "Liveness (every feasible project completes) is a whole-history property: the well-founded-measure argument is not "
                      "mechanised (DESIGN section 7). Termination of simulate itself is not proved (A9). unit_time == 1 in the proof.",
        "design_ref": "DESIGN.md section 6 C05",
        "assumptions": ["unit_time == 1", "BaseProject.__allocate / check_removing_placed_workplace: assumed frame contracts",
                        "completion (liveness) clause: NOT decided; only the local lemmas L2/L3 (gate completeness) are proved"],
        "explanation": "simulate: status/time clauses as loop invariant + posts at each return site",
    },
    "C06": {
        "inv": ["BaseWorkflow.__check_ready", "BaseWorkflow.__check_working", "BaseWorkflow.__check_finished", "BaseTask.can_add_resources",
                "BaseProject.__allocate@workers", "BaseProject.__allocate@candidates", "BaseProject.__is_allocated_worker", "BaseProject.__is_allocated_facility"],
        "static": COMMON_STATIC,
        "level_text": "Clauses (a), (b), (d) are completeness postconditions proved for all workflows and every set iteration order: a NONE "
                      "task whose start gate is open (FS predecessors FINISHED, SS predecessors started, including started-and-finished) "
                      "leaves NONE in the ready phase; a READY task with workers, or a free automatic task, starts in the working phase; "
                      "a WORKING task with remaining work < tol whose finish gate was already open finishes in the finish phase.",
        "level_note": "Clause (c) (no idle eligible worker after allocation) is proved for the branch of the allocation loop that serves a task "
                      "without facility (block __allocate@workers, one execution for one task: every offered worker who is skilled, whose team "
                      "targets the task and who is not taken is refused by can_add_resources in the final state); the facility branch and the "
                      "composition over all tasks of a pass are not verified. `already open` in (d) is the order-independent reading.",
        "design_ref": "DESIGN.md section 6 C06",
        "assumptions": ["clause (c) idle-worker: not yet decided (bounded stand-in for __allocate pending)"],
        "explanation": "completeness of the three state phases",
    },
    "C10": {
        "inv": ["BaseProject.simulate", "BaseOrganization.set_absence_state_to_all_workers_facilities", "BaseTeam.set_absence_state_to_all_workers",
                "BaseWorkplace.set_absence_state_to_all_facilities", "BaseOrganization.add_labor_cost",
                "BaseWorker.get_work_amount_skill_progress", "BaseFacility.get_work_amount_skill_progress", "BaseTask.perform",
                "BaseWorkflow.perform", "BaseWorker.record_state", "BaseFacility.record_state",
                "BaseWorker.check_update_state_from_absence_time_list", "BaseFacility.check_update_state_from_absence_time_list",
                "BaseWorkflow.__check_working", "BaseProject.remove_absence_time_list"],
        "static": COMMON_STATIC,
        "level_text": "Clause 1 (project-wide absence step) is a set of step obligations of the main loop of simulate, for all models and "
                      "absence lists: nothing is allocated, every worker/facility is logged ABSENCE and charged 0.0, and remaining work "
                      "changes only for automatic tasks when the flag is set (or is clamped to 0 by finishing). Clause 2 (individual "
                      "absence) is function-level: ABSENCE from the absence list, contributes 0 progress, cost 0 unless WORKING, and "
                      "an absent resource of a running task stays ABSENCE.",
        "level_note": "Clause 3 (deleting absence steps == simulating without them) is a two-run relational statement; it is not decided "
                      "(needs the C18 contracts and a product obligation).",
        "design_ref": "DESIGN.md section 6 C10",
        "assumptions": ["clause 3 not decided", "BaseProject.__allocate is syntactically not called on an absence step (it is under `if working`; seen by symbolic execution of the real body)"],
        "explanation": "absence arm of the step body",
    },

    "C18": {
        "inv": ["BaseTask.remove_absence_time_list", "BaseTask.insert_absence_time_list", "BaseComponent.remove_absence_time_list", "BaseComponent.insert_absence_time_list", "BaseWorker.remove_absence_time_list", "BaseWorker.insert_absence_time_list", "BaseFacility.remove_absence_time_list", "BaseFacility.insert_absence_time_list", "BaseTeam.remove_absence_time_list", "BaseTeam.insert_absence_time_list", "BaseWorkplace.remove_absence_time_list", "BaseWorkplace.insert_absence_time_list", "BaseOrganization.remove_absence_time_list", "BaseOrganization.insert_absence_time_list", "BaseProduct.remove_absence_time_list", "BaseProduct.insert_absence_time_list", "BaseWorkflow.remove_absence_time_list", "BaseWorkflow.insert_absence_time_list", "BaseProject.remove_absence_time_list", "BaseProject.insert_absence_time_list"],
        "static": COMMON_STATIC,
        "level_text": "remove_absence_time_list and insert_absence_time_list of all ten classes are verified, for every list of non-negative "
                      "step indices (step 0, duplicates, steps beyond the end) and every log length: no exception (argument counts, pop "
                      "indices), every log of every object ends at ONE common new length (a ghost fold over the sorted step list that is "
                      "the same function for all logs), sub-project tasks included, and project.time equals that length.",
        "level_note": "Lengths and safety are proved; the CONTENT of inserted entries (zero cost, copied allocation, state rule) and the "
                      "inverse property remove(insert(s)) = s are not yet under contract. Preconditions: logs aligned before the edit, "
                      "project.time == number of steps (unit_time 1), step indices >= 0.",
        "design_ref": "DESIGN.md section 6 C18",
        "assumptions": ["content of inserted/removed entries and the inverse property: not decided",
                        "in-place extend of a possibly shared default list (D4): see C09"],
        "explanation": "absence step editing keeps all logs aligned",
    },

    "C09": {
        "inv": ["BaseWorkflow.__check_ready", "BaseWorkflow.__check_working", "BaseWorkflow.__check_finished",
                "BaseProject.initialize", "BaseWorkflow.initialize", "BaseOrganization.initialize", "BaseProduct.initialize",
                "BaseTask.initialize", "BaseWorker.initialize", "BaseFacility.initialize", "BaseComponent.initialize",
                "BaseTeam.initialize", "BaseWorkplace.initialize"],
        "static": COMMON_STATIC + ["c09_identity_scan", "c09_set_order_unobservable", "c09_mutable_defaults", "c09_reset_fields"],
        "level_text": "(a) order independence: the three phases that iterate over internal task sets are verified with loops cut at "
                      "invariants over an ARBITRARY enumeration of the set; __check_ready and __check_working are proved to yield task "
                      "states that are a stated function of the pre-state, __check_finished to run to a fixpoint (no finishable task "
                      "left). (b) no `is`/id()/hash() on values (static, A8). (c) every attribute written during simulate is reset by "
                      "initialize(True, True) or overwritten from the arguments (static write-sets) and initialize is verified to reset "
                      "to values that depend on parameters only. (d) no mutable default argument is stored and mutated (static).",
        "level_note": "`in a fresh process / at other addresses` is not expressible as a contract; it is inferred from (a)-(d) under A2, A3, "
                      "A7. The PERT passes and check_removing_placed_workplace also iterate sets: their results are covered by C12 (bounded, "
                      "every order) resp. not yet under contract. Uniqueness of the fixpoint of the finish phase is a monotonicity argument, not mechanised.",
        "design_ref": "DESIGN.md section 6 C09",
        "assumptions": ["np.random.normal(m, 0) == m (deterministic skills)", "write-sets are syntactic over-approximations (call resolution by method name)"],
        "explanation": "order independence, identity independence, reset, ownership of default arguments",
    },
    "C15": {
        "inv": ["BaseProject.simulate", "BaseProject.initialize", "BaseWorkflow.initialize", "BaseOrganization.initialize", "BaseProduct.initialize",
                "BaseTask.initialize", "BaseWorker.initialize", "BaseFacility.initialize", "BaseTeam.initialize", "BaseWorkplace.initialize",
                "BaseComponent.initialize", "BaseWorkflow.__check_finished", "BaseWorkflow.__check_ready"],
        "static": COMMON_STATIC + ["c15_no_loop_carried_locals", "c16_restore_in_saved_order"],
        "level_text": "In-memory pause/resume rests on three function-level facts, all discharged: (1) the main loop of simulate carries no "
                      "state in local variables (static def-use obligation); (2) initialize(state_info=False, log_info=False) is verified to "
                      "leave every state and log attribute of every class unchanged (whole-array frames); (3) repeating the update phase at "
                      "the same time changes nothing for the finish and ready phases (the finish phase is verified to reach a fixpoint, the "
                      "ready phase to be a function of the pre-state). simulate is verified for both settings of the two initialize flags.",
        "level_note": "The two-run statement (paused+resumed == uninterrupted) itself is not a single contract; the composition of (1)-(3) is a "
                      "written argument. Idempotence of update_PERT_data and check_removing_placed_workplace at a fixed time is not yet "
                      "under contract. The JSON variant inherits C16 (format incompleteness D15 is a recorded finding).",
        "design_ref": "DESIGN.md section 6 C15",
        "assumptions": ["composition of the three facts into the two-run statement: not mechanised", "JSON variant: see C16"],
        "explanation": "no loop-carried locals, initialize(False, False) is a no-op, update phases idempotent",
    },
    "C16": {
        "inv": ["BaseTask.__init__", "BaseWorker.__init__"],
        "static": COMMON_STATIC + ["c16_definite_assignment", "c16_read_keys_exported", "c16_format_complete", "c16_export_faithful", "c16_restore_in_saved_order"],
        "level_text": "Static obligations over the real export/read code: every attribute read by export_dict_json_data is assigned by "
                      "__init__ on all paths (writing cannot raise AttributeError), every key read on load is written on save, every "
                      "constructor parameter whose attribute is read on the simulation path is saved and passed back. Deductive "
                      "obligations: the BaseTask and BaseWorker constructors store exactly the numeric/enum values they are given "
                      "(all values incl. 0, 0.0, -1).",
        "level_note": "Relinking of IDs to objects in read_simple_json and the re-simulation clause are not under contract. json.dump/json.load "
                      "are trusted to be the identity on JSON values. Three recorded findings (D15: settings missing from the saved format).",
        "design_ref": "DESIGN.md section 6 C16",
        "assumptions": ["relinking (read_simple_json) not verified", "constructors of component/facility/team/workplace not yet under contract"],
        "explanation": "saved format: definite assignment, key consistency, completeness; constructor round trip",
    },
    "C17": {
        "inv": ["BaseWorkflow.reverse_dependencies", "BaseOrganization.reverse_dependencies", "BaseProject.reverse_log_information",
                "BaseOrganization.reverse_log_information", "BaseWorkflow.reverse_log_information", "BaseProduct.reverse_log_information",
                # the dependency clause of the reversed logs rests on the same three gates as C01 (run on the reversed network)
                "BaseWorkflow.__check_ready", "BaseWorkflow.__check_working", "BaseWorkflow.__check_finished"],
        "static": COMMON_STATIC + ["c17_structure_not_in_frame"],
        "level_text": "reverse_dependencies of workflow and organization are verified to swap the two link lists of every member as the SAME "
                      "list objects (value identity), so two calls restore the structure; simulate and everything it can call are shown "
                      "(static write-set) never to write input/output task lists, task_list or workplace links, so an exception anywhere "
                      "in the inner run leaves exactly the structure the `finally` block undoes (two reverse calls before, two in finally, "
                      "helper tasks removed).",
        "level_note": "backward_simulate itself is not executed symbolically (object construction and try/finally with exceptional edges are "
                      "outside the subset); the log clause (no task WORKING before its FS predecessors stopped) and `later forward run is "
                      "unaffected` follow from C01/C09(c) by a written argument.",
        "design_ref": "DESIGN.md section 6 C17",
        "assumptions": ["exceptions between append_input_task and the bookkeeping of the helper task (MemoryError/KeyboardInterrupt) are not covered"],
        "explanation": "structure restoration of backward simulation",
    },

    "C20": {
        "inv": ["BaseSubProjectTask.set_all_attributes_from_json", "BaseSubProjectTask.set_work_amount_progress_of_unit_step_time",
                "BaseProject.remove_absence_time_list", "BaseTask.perform", "BaseWorkflow.__check_working", "BaseWorkflow.__check_finished",
                # `needing no workers`: the allocation statement of __allocate gives an automatic task nothing
                "BaseProject.__allocate@allocation"],
        "static": COMMON_STATIC + ["c20_ceil_lemma"],
        "level_text": "set_all_attributes_from_json is verified: a project that was not simulated successfully is refused (result (-1, 1 day), "
                      "task attributes untouched: frame at that return site); otherwise the work amount is the loaded project's time AFTER "
                      "remove_absence_time_list, whose verified contract (C18) makes it the common log length with the in-range absence "
                      "steps deleted. set_work_amount_progress_of_unit_step_time: rate = parent unit / sub-project unit. Run lemmas: an "
                      "automatic free task starts as soon as it is READY (C06b), loses exactly its rate per working step (C02), finishes at "
                      "the first step with remaining < tol (C06d). Arithmetic lemma (z3, quantifier-free): that step count is ceil(D/p) "
                      "outside the band frac(D/p) in (0, tol/p).",
        "level_note": "BaseProject() and read_simple_json are TRUSTED (file I/O); the loaded result of a successful run is assumed aligned and "
                      "well-formed. The composition of the run lemmas into `occupies exactly ceil(..) consecutive working steps` is a written "
                      "argument. `Needing no workers`: the allocation statement of __allocate (block __allocate@allocation, selected by position, whatever "
                      "its guard is) is proved to give an automatic task nothing.",
        "design_ref": "DESIGN.md section 6 C20",
        "assumptions": ["TRUSTED: BaseProject.__init__, BaseProject.read_simple_json (contract assumed: loaded successful result is aligned)",
                        "excluded band of width tol/p (A1)", "composition of the run lemmas not mechanised"],
        "explanation": "sub-project task configuration and duration",
    },
}
