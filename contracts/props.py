"""Which units (functions under contract, bounded stand-ins, static obligations) decide which property."""

COMMON_STATIC = ["plain_attributes", "schema_complete"]

C19_QUERIES = []
for owner, kind, states in (("BaseWorkflow", "task", ["none", "ready", "working", "finished"]),
                            ("BaseProduct", "component", ["none", "ready", "working", "finished"]),
                            ("BaseTeam", "worker", ["free", "working"]),
                            ("BaseWorkplace", "facility", ["free", "working"])):
    C19_QUERIES.append("%s.__extract_state_%s_list" % (owner, kind))
    for s in states:
        C19_QUERIES.append("%s.extract_%s_%s_list" % (owner, s, kind))

PROPS = {
    "C19": {
        "inv": ["BaseTask.get_time_list_for_gannt_chart", "BaseComponent.get_time_list_for_gannt_chart",
                "BaseWorker.get_time_list_for_gannt_chart", "BaseFacility.get_time_list_for_gannt_chart",
                "BaseTask.create_data_for_gantt_plotly", "BaseComponent.create_data_for_gantt_plotly",
                "BaseProject.set_last_datetime"] + C19_QUERIES,
        "bounded": [],
        "static": COMMON_STATIC + ["c19_margin_additive"],
        "assumptions": [
            "finish_margin is an integer in the encoder/row proofs; static:margin-additive shows the parameter is only "
            "added to emitted lengths, so results for a real margin m are the integer-margin results shifted by m",
            "datetime/timedelta arithmetic: uninterpreted additive action, strftime uninterpreted (trusted, DESIGN 2.6)",
            "extract_*_list: requested times are >= 0 (negative indices would wrap around in python)",
            "not under contract: row builders of team/workplace (per-member concatenation) and the concatenating "
            "create_data_for_gantt_plotly of workflow/product/organization",
        ],
        "level_text": "Every listed function is verified against its contract for all inputs (all log lengths and contents over "
                      "every enum member, all time lists, dates, units) by loop invariants: no unrolling bound. A failing "
                      "obligation names the clause (e.g. working-cover) and is replayed on the real classes.",
        "level_note": "Trusted: pyvc VC generator, z3/cvc5, builtin axioms (enumerate, list.append, set, list(set)), datetime as "
                      "uninterpreted additive action; finish_margin integer in the proof + static additivity argument; floats as reals.",
        "design_ref": "DESIGN.md section 6 C19",
        "explanation": "run-length encoders (all enum members), row builders of task/component, state queries and "
                       "set_last_datetime against their specification, unbounded (loop invariants)",
    },
}
