"""C16(a) — constructors store exactly what they are given (the loader passes saved values to the constructors)."""

contract("BaseTask.__init__", props=["C16"],
         types={"est": "Real", "eft": "Real", "lst": "Real", "lft": "Real", "remaining_work_amount": "Opt[Real]",
                "default_work_amount": "Opt[Real]", "default_progress": "Opt[Real]", "due_time": "Opt[Int]",
                "auto_task": "Bool", "need_facility": "Bool", "state": "Enum(BaseTaskState)",
                "work_amount_progress_of_unit_step_time": "Opt[Real]"},
         ensures=[
             ("pert-values-restored", "self.est == est and self.eft == eft and self.lst == lst and self.lft == lft"),
             ("state-restored", "self.state == state"),
             ("remaining-restored", "implies(not is_none(remaining_work_amount), self.remaining_work_amount == remaining_work_amount)"),
             ("parameters-restored", "implies(not is_none(default_work_amount), self.default_work_amount == default_work_amount)"
                                     " and implies(not is_none(default_progress), self.default_progress == default_progress)"
                                     " and implies(not is_none(due_time), self.due_time == due_time)"
                                     " and self.auto_task == auto_task and self.need_facility == need_facility"
                                     " and implies(not is_none(work_amount_progress_of_unit_step_time),"
                                     "             self.work_amount_progress_of_unit_step_time == work_amount_progress_of_unit_step_time)"),
         ],
         modifies=["BaseTask.%s@self" % a for a in (
             "name", "ID", "default_work_amount", "work_amount_progress_of_unit_step_time", "input_task_list", "output_task_list",
             "allocated_team_list", "allocated_workplace_list", "parent_workflow", "workplace_priority_rule", "worker_priority_rule",
             "facility_priority_rule", "need_facility", "target_component", "default_progress", "due_time", "auto_task",
             "fixing_allocating_worker_id_list", "fixing_allocating_facility_id_list", "est", "eft", "lst", "lft",
             "additional_work_amount", "actual_work_amount", "remaining_work_amount", "remaining_work_amount_record_list", "state",
             "state_record_list", "allocated_worker_list", "allocated_worker_id_record", "allocated_facility_list",
             "allocated_facility_id_record", "additional_task_flag")])

contract("BaseWorker.__init__", props=["C16"],
         types={"cost_per_time": "Real", "solo_working": "Bool", "state": "Enum(BaseWorkerState)"},
         ensures=[("values-restored", "self.cost_per_time == cost_per_time and self.solo_working == solo_working and self.state == state")],
         modifies=["BaseWorker.%s@self" % a for a in (
             "name", "ID", "team_id", "main_workplace_id", "cost_per_time", "solo_working", "workamount_skill_mean_map",
             "workamount_skill_sd_map", "absence_time_list", "facility_skill_map", "quality_skill_mean_map", "quality_skill_sd_map",
             "state", "state_record_list", "cost_list", "assigned_task_list", "assigned_task_id_record")])
