"""C01 / C06(a,b,d) / C02(finish) / C03(release) — BaseWorkflow.__check_ready, __check_working, __check_finished."""

define("started(p)", "p.state == BaseTaskState.WORKING or p.state == BaseTaskState.FINISHED")
# well-formed workflow (the part these functions rely on)
define("wf_tasks(wf)", "forall(wf.task_list, lambda t: t is not None and forall(t.input_task_list, lambda p, d: p is not None))")

# the start gate of the property statement (C01): FS predecessors FINISHED, SS predecessors started
define("start_gate(t)", "forall(t.input_task_list, lambda p, d: implies(d == BaseTaskDependency.FS, p.state == BaseTaskState.FINISHED)"
                        " and implies(d == BaseTaskDependency.SS, started(p)))")
# the finish gate (C01): FF predecessors FINISHED, SF predecessors started
define("finish_gate(t)", "forall(t.input_task_list, lambda p, d: implies(d == BaseTaskDependency.FF, p.state == BaseTaskState.FINISHED)"
                         " and implies(d == BaseTaskDependency.SF, started(p)))")

contract("BaseWorkflow.__check_ready", props=["C01", "C06"],
         types={"time": "Int"},
         requires=["wf_tasks(self)"],
         ensures=[
             # C01 safety: only NONE -> READY, and only through an open start gate
             ("only-none-to-ready", "forall_obj('BaseTask', lambda t: implies(t.state != old(t.state),"
                                    " old(t.state) == BaseTaskState.NONE and t.state == BaseTaskState.READY))"),
             ("start-gate-respected", "forall_obj('BaseTask', lambda t: implies(t.state != old(t.state), start_gate(t)))"),
             # C06(a) completeness: an open start gate means the task does not stay NONE
             ("no-waiting-in-none", "forall(self.task_list, lambda t: implies(old(t.state) == BaseTaskState.NONE and old(start_gate(t)),"
                                    " t.state != BaseTaskState.NONE))"),
             # C09(a): the post-state is a function of the pre-state alone, whatever order the internal set is visited in
             ("order-independent-result", "forall(self.task_list, lambda t: t.state == ite(old(t.state) == BaseTaskState.NONE and old(start_gate(t)),"
                                          " BaseTaskState.READY, old(t.state)))"),
         ],
         modifies=["BaseTask.state@self.task_list"],
         loops={
             0: [
                 ("changed-are-visited", "forall_obj('BaseTask', lambda t: implies(t.state != old(t.state),"
                                         " old(t.state) == BaseTaskState.NONE and t.state == BaseTaskState.READY and t in _visited))"),
                 ("start-gate-respected", "forall_obj('BaseTask', lambda t: implies(t.state != old(t.state), start_gate(t)))"),
                 ("visited-complete", "forall_obj('BaseTask', lambda t: implies(t in _visited and old(start_gate(t)), t.state != BaseTaskState.NONE))"),
                 ("changed-had-open-gate", "forall_obj('BaseTask', lambda t: implies(t.state != old(t.state), old(start_gate(t))))"),
                 ("frame", "unchanged_except('BaseTask.state', self.task_list)"),
             ],
             1: [
                 ("ready-flag", "ready"),
                 ("prefix-open", "forall_int(0, _i, lambda k: implies(input_task_list[k][1] == BaseTaskDependency.FS, input_task_list[k][0].state == BaseTaskState.FINISHED)"
                                 " and implies(input_task_list[k][1] == BaseTaskDependency.SS, started(input_task_list[k][0])))"),
             ],
         })

# ------------------------------------------------------------------------------------------------ __check_working
W, F = "BaseWorkerState", "BaseFacilityState"
define("wf_alloc(wf)", "forall(wf.task_list, lambda t: t is not None and forall(t.allocated_worker_list, lambda w: w is not None)"
                       " and forall(t.allocated_facility_list, lambda f: f is not None))")
# what makes a READY task start working in this phase (as the code and the property (C06b) state it)
define("work_trigger(t)", "len(t.allocated_worker_list) > 0 or (t.auto_task and t.target_component is None)"
                          " or (t.auto_task and t.target_component is not None"
                          "     and exists(t.allocated_workplace_list, lambda wp: wp is t.target_component.placed_workplace))")

# a resource state changes here only to WORKING, and only if the resource was FREE or belongs to a task that starts now
# (C03 d / C10: an individually absent resource of a running task stays ABSENCE)
MONO_W = ("forall_obj('BaseWorker', lambda w: w.state == %s(w.state) or (w.state == BaseWorkerState.WORKING and (old(w.state) == BaseWorkerState.FREE"
          " or (len(w.assigned_task_list) == 1 and old(w.assigned_task_list[0].state) == BaseTaskState.READY))))")
MONO_F = ("forall_obj('BaseFacility', lambda f: f.state == %s(f.state) or (f.state == BaseFacilityState.WORKING and (old(f.state) == BaseFacilityState.FREE"
          " or (len(f.assigned_task_list) == 1 and old(f.assigned_task_list[0].state) == BaseTaskState.READY))))")

contract("BaseWorkflow.__check_working", props=["C01", "C03", "C06"],
         types={"time": "Int"},
         requires=["wf_alloc(self)", "holds_exclusively(self)"],
         ensures=[
             ("absent-resources-of-running-tasks-stay-absent", "forall(self.task_list, lambda t: implies(old(t.state) == BaseTaskState.WORKING,"
                  " forall(t.allocated_worker_list, lambda w: implies(old(w.state) == BaseWorkerState.ABSENCE, w.state == BaseWorkerState.ABSENCE))"
                  " and forall(t.allocated_facility_list, lambda f: implies(old(f.state) == BaseFacilityState.ABSENCE, f.state == BaseFacilityState.ABSENCE))))"),
             ("only-ready-to-working", "forall_obj('BaseTask', lambda t: implies(t.state != old(t.state),"
                                       " old(t.state) == BaseTaskState.READY and t.state == BaseTaskState.WORKING))"),
             ("needs-trigger", "forall_obj('BaseTask', lambda t: implies(t.state != old(t.state), work_trigger(t)))"),
             # C06(b): a READY task with workers, or a free automatic task, starts in this phase
             ("no-waiting-in-ready", "forall(self.task_list, lambda t: implies(old(t.state) == BaseTaskState.READY and work_trigger(t),"
                                     " t.state == BaseTaskState.WORKING))"),
             # C09(a): task states after the phase are a function of the pre-state alone (any visiting order)
             ("order-independent-task-states", "forall(self.task_list, lambda t: t.state == ite(old(t.state) == BaseTaskState.READY and work_trigger(t),"
                                               " BaseTaskState.WORKING, old(t.state)))"),
             # C03(d): resource states only move to WORKING here, and the resources of working tasks are WORKING
             ("workers-only-to-working", MONO_W % "old"),
             ("facilities-only-to-working", MONO_F % "old"),
             ("workers-of-started-tasks", "forall(self.task_list, lambda t: implies(old(t.state) == BaseTaskState.READY and t.state == BaseTaskState.WORKING,"
                                          " forall(t.allocated_worker_list, lambda w: w.state == BaseWorkerState.WORKING)))"),
             ("facilities-of-started-tasks", "forall(self.task_list, lambda t: implies(old(t.state) == BaseTaskState.READY and t.state == BaseTaskState.WORKING and t.need_facility,"
                                             " forall(t.allocated_facility_list, lambda f: f.state == BaseFacilityState.WORKING)))"),
             ("free-workers-of-working-tasks", "forall(self.task_list, lambda t: implies(old(t.state) == BaseTaskState.WORKING,"
                                               " forall(t.allocated_worker_list, lambda w: w.state != BaseWorkerState.FREE)))"),
         ],
         modifies=["BaseTask.state@self.task_list", "BaseWorker.state", "BaseFacility.state"],
         loops={
             0: [
                 ("changed-are-visited", "forall_obj('BaseTask', lambda t: implies(t.state != old(t.state),"
                                         " old(t.state) == BaseTaskState.READY and t.state == BaseTaskState.WORKING and t in _visited))"),
                 ("visited-started", "forall_obj('BaseTask', lambda t: implies(t in _visited and old(t.state) == BaseTaskState.READY, t.state == BaseTaskState.WORKING))"),
                 ("frame", "unchanged_except('BaseTask.state', self.task_list)"),
                 ("mono-w", MONO_W % "old"),
                 ("mono-f", MONO_F % "old"),
                 ("workers-of-started", "forall_obj('BaseTask', lambda t: implies(t in _visited and old(t.state) == BaseTaskState.READY,"
                                        " forall(t.allocated_worker_list, lambda w: w.state == BaseWorkerState.WORKING)))"),
                 ("facilities-of-started", "forall_obj('BaseTask', lambda t: implies(t in _visited and old(t.state) == BaseTaskState.READY and t.need_facility,"
                                           " forall(t.allocated_facility_list, lambda f: f.state == BaseFacilityState.WORKING)))"),
                 ("free-workers-of-working", "forall_obj('BaseTask', lambda t: implies(t in _visited and old(t.state) == BaseTaskState.WORKING,"
                                             " forall(t.allocated_worker_list, lambda w: w.state != BaseWorkerState.FREE)))"),
             ],
             1: [("mono-w", MONO_W % "pre"),
                 ("done", "forall_int(0, _i, lambda k: _seq[k].state == BaseWorkerState.WORKING)")],
             2: [("mono-f", MONO_F % "pre"),
                 ("done", "forall_int(0, _i, lambda k: _seq[k].state == BaseFacilityState.WORKING)")],
             3: [("mono-w", MONO_W % "pre"), ("mono-f", MONO_F % "pre"),
                 ("done", "forall_int(0, _i, lambda k: _seq[k].state != BaseWorkerState.FREE)")],
             4: [("mono-f", MONO_F % "pre")],
         })

# ------------------------------------------------------------------------------------------------ __check_finished
TOL = "0.0 + 1e-10"
# exclusivity / two-way consistency of the resources held by the tasks of a workflow (C03 a,b), as a precondition
define("holds_exclusively(wf)",
       "forall(wf.task_list, lambda t: forall(t.allocated_worker_list, lambda w: w is not None and len(w.assigned_task_list) == 1 and w.assigned_task_list[0] is t)"
       " and forall(t.allocated_facility_list, lambda f: f is not None and len(f.assigned_task_list) == 1 and f.assigned_task_list[0] is t))"
       " and forall_obj('BaseWorker', lambda w: forall(w.assigned_task_list, lambda t: t is not None and exists(t.allocated_worker_list, lambda w2: w2 is w)))"
       " and forall_obj('BaseFacility', lambda f: forall(f.assigned_task_list, lambda t: t is not None and exists(t.allocated_facility_list, lambda f2: f2 is f)))")
define("task_changed(t)", "t.state != old(t.state)")
define("worker_released(w)", "old(len(w.assigned_task_list)) == 1 and task_changed(old(w.assigned_task_list)[0])")
define("facility_released(f)", "old(len(f.assigned_task_list)) == 1 and task_changed(old(f.assigned_task_list)[0]) and old(f.assigned_task_list)[0].need_facility")

FIN_TASK_CLAUSES = [
    # C01: only WORKING -> FINISHED, only with (near-)zero remaining work, only through an open finish gate
    ("only-working-to-finished", "forall_obj('BaseTask', lambda t: implies(task_changed(t), old(t.state) == BaseTaskState.WORKING"
                                 " and t.state == BaseTaskState.FINISHED and old(t.remaining_work_amount) < %s))" % TOL),
    ("finish-gate-respected", "forall_obj('BaseTask', lambda t: implies(task_changed(t), finish_gate(t)))"),
    # C02: a finished task reports 0 remaining work, nothing else changes remaining work
    ("remaining", "forall_obj('BaseTask', lambda t: t.remaining_work_amount == (0.0 if task_changed(t) else old(t.remaining_work_amount)))"),
    # C03(e): everything a finishing task held is released
    ("lists-of-finished", "forall_obj('BaseTask', lambda t: implies(task_changed(t), len(t.allocated_worker_list) == 0"
                          " and implies(t.need_facility, len(t.allocated_facility_list) == 0)))"),
    ("lists-of-others", "forall_obj('BaseTask', lambda t: implies(not task_changed(t), seq_eq(t.allocated_worker_list, old(t.allocated_worker_list))"
                        " and seq_eq(t.allocated_facility_list, old(t.allocated_facility_list))))"),
    ("facility-list-kept-if-not-needed", "forall_obj('BaseTask', lambda t: implies(not t.need_facility, seq_eq(t.allocated_facility_list, old(t.allocated_facility_list))))"),
]
FIN_RES_CLAUSES = [
    ("workers-released", "forall_obj('BaseWorker', lambda w: implies(worker_released(w), len(w.assigned_task_list) == 0 and w.state == BaseWorkerState.FREE))"),
    ("workers-untouched", "forall_obj('BaseWorker', lambda w: implies(not worker_released(w), w.state == old(w.state) and seq_eq(w.assigned_task_list, old(w.assigned_task_list))))"),
    ("facilities-released", "forall_obj('BaseFacility', lambda f: implies(facility_released(f), len(f.assigned_task_list) == 0 and f.state == BaseFacilityState.FREE))"),
    ("facilities-untouched", "forall_obj('BaseFacility', lambda f: implies(not facility_released(f), f.state == old(f.state) and seq_eq(f.assigned_task_list, old(f.assigned_task_list))))"),
]

contract("BaseWorkflow.__check_finished", props=["C01", "C02", "C03", "C06"],
         types={"time": "Int"},
         requires=["wf_tasks(self)", "holds_exclusively(self)"],
         ensures=FIN_TASK_CLAUSES + FIN_RES_CLAUSES + [
             ("lists-never-grow", "forall(self.task_list, lambda t: len(t.allocated_worker_list) <= old(len(t.allocated_worker_list))"
                                  " and len(t.allocated_facility_list) <= old(len(t.allocated_facility_list)))"),
             # C03(a,b) is preserved: what is still held is held exclusively and two-way
             ("consistency-preserved", "holds_exclusively(self)"),
             # C09(a) / C15: the phase runs to a fixpoint: no WORKING task with exhausted work and an open finish gate is left,
             # so the result does not depend on the visiting order and repeating the phase changes nothing
             ("no-finishable-task-left", "forall(self.task_list, lambda t: implies(t.state == BaseTaskState.WORKING"
                                         " and t.remaining_work_amount < %s, not finish_gate(t)))" % TOL),
             # C06(d): zero remaining work and a finish gate that was already open -> FINISHED in this phase
             ("no-waiting-in-working", "forall(self.task_list, lambda t: implies(old(t.state) == BaseTaskState.WORKING"
                                       " and old(t.remaining_work_amount) < %s and old(finish_gate(t)), t.state == BaseTaskState.FINISHED))" % TOL),
         ],
         modifies=["BaseTask.state@self.task_list", "BaseTask.remaining_work_amount@self.task_list",
                   "BaseTask.allocated_worker_list@self.task_list", "BaseTask.allocated_facility_list@self.task_list",
                   "BaseWorker.state", "BaseWorker.assigned_task_list", "BaseFacility.state", "BaseFacility.assigned_task_list"],
         loops={
             0: FIN_TASK_CLAUSES + FIN_RES_CLAUSES + [
                 ("lists-never-grow", "forall(self.task_list, lambda t: len(t.allocated_worker_list) <= old(len(t.allocated_worker_list))"
                                      " and len(t.allocated_facility_list) <= old(len(t.allocated_facility_list)))"),
                 ("changed-are-visited", "forall_obj('BaseTask', lambda t: implies(task_changed(t), t in _visited))"),
                 ("flag", "implies(not finished_task_exists, unchanged('BaseTask.state') and unchanged('BaseTask.remaining_work_amount'))"),
                 ("visited-closed", "implies(not finished_task_exists, forall_obj('BaseTask', lambda t: implies(t in _visited, not finish_gate(t))))"),
                 ("visited-complete", "forall_obj('BaseTask', lambda t: implies(t in _visited and old(finish_gate(t)), t.state == BaseTaskState.FINISHED))"),
                 ("frame", "unchanged_except('BaseTask.state', self.task_list) and unchanged_except('BaseTask.remaining_work_amount', self.task_list)"
                           " and unchanged_except('BaseTask.allocated_worker_list', self.task_list) and unchanged_except('BaseTask.allocated_facility_list', self.task_list)"),
             ],
             1: [
                 ("finished-flag", "finished"),
                 ("prefix-open", "forall_int(0, _i, lambda k: implies(_seq[k][1] == BaseTaskDependency.FF, _seq[k][0].state == BaseTaskState.FINISHED)"
                                 " and implies(_seq[k][1] == BaseTaskDependency.SF, started(_seq[k][0])))"),
             ],
             2: [
                 ("done", "forall_int(0, _i, lambda k: len(_seq[k].assigned_task_list) == 0 and _seq[k].state == BaseWorkerState.FREE)"),
                 ("others", "forall_obj('BaseWorker', lambda w: implies(not (pre(len(w.assigned_task_list)) == 1 and pre(w.assigned_task_list)[0] is task),"
                            " w.state == pre(w.state) and seq_eq(w.assigned_task_list, pre(w.assigned_task_list))))"),
                 ("todo", "forall_int(_i, len(_seq), lambda k: implies(forall_int(0, _i, lambda j: _seq[j] is not _seq[k]),"
                          " _seq[k].state == pre(_seq[k].state) and seq_eq(_seq[k].assigned_task_list, pre(_seq[k].assigned_task_list))))"),
             ],
             3: [
                 ("done", "forall_int(0, _i, lambda k: len(_seq[k].assigned_task_list) == 0 and _seq[k].state == BaseFacilityState.FREE)"),
                 ("others", "forall_obj('BaseFacility', lambda f: implies(not (pre(len(f.assigned_task_list)) == 1 and pre(f.assigned_task_list)[0] is task),"
                            " f.state == pre(f.state) and seq_eq(f.assigned_task_list, pre(f.assigned_task_list))))"),
                 ("todo", "forall_int(_i, len(_seq), lambda k: implies(forall_int(0, _i, lambda j: _seq[j] is not _seq[k]),"
                          " _seq[k].state == pre(_seq[k].state) and seq_eq(_seq[k].assigned_task_list, pre(_seq[k].assigned_task_list))))"),
             ],
         })
