"""C08 / C09(c) / C15 — initialize(state_info, log_info) of every class: what is reset and what is left alone."""

define("task_init_a(t, si, li)",
       "implies(si, t.est == 0.0 and t.eft == 0.0 and t.lst == -1.0 and t.lft == -1.0"
       "   and t.remaining_work_amount == t.default_work_amount * (1.0 - t.default_progress)"
       "   and t.actual_work_amount == t.default_work_amount * (1.0 - t.default_progress)"
       "   and len(t.allocated_worker_list) == 0 and len(t.allocated_facility_list) == 0 and not t.additional_task_flag"
       "   and t.state == ite(li and t.default_progress >= 1.00 - 1e-10, BaseTaskState.FINISHED, BaseTaskState.NONE))")
define("task_init_b(t, si, li)",
       "implies(not si, t.est == old(t.est) and t.eft == old(t.eft) and t.lst == old(t.lst) and t.lft == old(t.lft)"
       "   and t.remaining_work_amount == old(t.remaining_work_amount) and t.actual_work_amount == old(t.actual_work_amount)"
       "   and same(t.allocated_worker_list, old(t.allocated_worker_list)) and same(t.allocated_facility_list, old(t.allocated_facility_list))"
       "   and t.additional_task_flag == old(t.additional_task_flag) and t.state == old(t.state))")
define("task_init_c(t, si, li)",
       "implies(li, len(t.state_record_list) == 0 and len(t.remaining_work_amount_record_list) == 0"
       "   and len(t.allocated_worker_id_record) == 0 and len(t.allocated_facility_id_record) == 0)"
       " and implies(not li, task_logs_kept(t))")
define("task_initialized(t, si, li)", "task_init_a(t, si, li) and task_init_b(t, si, li) and task_init_c(t, si, li)")
TASK_STATE_FIELDS = ["est", "eft", "lst", "lft", "remaining_work_amount", "actual_work_amount", "allocated_worker_list",
                     "allocated_facility_list", "additional_task_flag", "state"]
TASK_LOG_FIELDS = ["state_record_list", "remaining_work_amount_record_list", "allocated_worker_id_record", "allocated_facility_id_record"]
contract("BaseTask.initialize", props=["C08", "C02", "C01", "C09", "C15"],
         types={"state_info": "Bool", "log_info": "Bool"},
         ensures=[("reset", "task_initialized(self, state_info, log_info)"),
                  ("nothing-written-without-state-info", "implies(not state_info, unchanged('BaseTask.allocated_worker_list', 'BaseTask.allocated_facility_list', 'BaseTask.state', 'BaseTask.remaining_work_amount'))")],
         modifies=["BaseTask.%s@self" % f for f in TASK_STATE_FIELDS + TASK_LOG_FIELDS])

for cls, st in (("BaseWorker", "BaseWorkerState"), ("BaseFacility", "BaseFacilityState")):
    pred = "%s_initialized" % cls[4:].lower()
    define("%s(r, si, li)" % pred,
           "implies(si, r.state == %s.FREE and len(r.assigned_task_list) == 0)" % st +
           " and implies(not si, r.state == old(r.state) and same(r.assigned_task_list, old(r.assigned_task_list)))"
           " and implies(li, len(r.state_record_list) == 0 and len(r.cost_list) == 0 and len(r.assigned_task_id_record) == 0)"
           " and implies(not li, same(r.state_record_list, old(r.state_record_list)) and same(r.cost_list, old(r.cost_list))"
           "   and same(r.assigned_task_id_record, old(r.assigned_task_id_record)))")
    contract(cls + ".initialize", props=["C08", "C09", "C15"], types={"state_info": "Bool", "log_info": "Bool"},
             ensures=[("reset", "%s(self, state_info, log_info)" % pred),
                      ("nothing-written-without-state-info", "implies(not state_info, unchanged('%s.state', '%s.assigned_task_list'))" % (cls, cls))],
             modifies=["%s.%s@self" % (cls, f) for f in ("state", "assigned_task_list", "state_record_list", "cost_list", "assigned_task_id_record")])

RES_FIELDS = ("state", "assigned_task_list", "state_record_list", "cost_list", "assigned_task_id_record")
contract("BaseTeam.initialize", props=["C08", "C09", "C15"], types={"state_info": "Bool", "log_info": "Bool"},
         requires=["forall(self.worker_list, lambda w: w is not None)", "distinct_list(self.worker_list)"],
         ensures=[("own-log", "ite(log_info, len(self.cost_list) == 0, same(self.cost_list, old(self.cost_list)))"),
                  ("workers", "forall(self.worker_list, lambda w: worker_initialized(w, state_info, log_info))"),
                  ("nothing-written-without-state-info", "implies(not state_info, unchanged('BaseWorker.state', 'BaseWorker.assigned_task_list'))")],
         modifies=["BaseTeam.cost_list@self"] + ["BaseWorker.%s@self.worker_list" % f for f in RES_FIELDS],
         loops={0: [("done", "forall_int(0, _i, lambda k: worker_initialized(self.worker_list[k], state_info, log_info))"),
                    ("todo", "forall_int(_i, len(self.worker_list), lambda k: let(self.worker_list[k], lambda r: r.state == old(r.state)"
                             " and same(r.assigned_task_list, old(r.assigned_task_list)) and same(r.state_record_list, old(r.state_record_list))"
                             " and same(r.cost_list, old(r.cost_list)) and same(r.assigned_task_id_record, old(r.assigned_task_id_record))))"),
                    ("kept", "implies(not state_info, unchanged('BaseWorker.state', 'BaseWorker.assigned_task_list'))"),
                    ("frame", " and ".join("unchanged_except('BaseWorker.%s', self.worker_list)" % f for f in RES_FIELDS))]})
contract("BaseWorkplace.initialize", props=["C08", "C09", "C15", "C13"], types={"state_info": "Bool", "log_info": "Bool"},
         requires=["forall(self.facility_list, lambda w: w is not None)", "distinct_list(self.facility_list)"],
         ensures=[("own-logs", "ite(log_info, len(self.cost_list) == 0 and len(self.placed_component_id_record) == 0,"
                               " same(self.cost_list, old(self.cost_list)) and same(self.placed_component_id_record, old(self.placed_component_id_record)))"),
                  ("placement", "ite(state_info, len(self.placed_component_list) == 0, same(self.placed_component_list, old(self.placed_component_list)))"),
                  ("facilities", "forall(self.facility_list, lambda w: facility_initialized(w, state_info, log_info))"),
                  ("nothing-written-without-state-info", "implies(not state_info, unchanged('BaseFacility.state', 'BaseFacility.assigned_task_list'))")],
         modifies=["BaseWorkplace.cost_list@self", "BaseWorkplace.placed_component_id_record@self", "BaseWorkplace.placed_component_list@self"]
                  + ["BaseFacility.%s@self.facility_list" % f for f in RES_FIELDS],
         loops={0: [("done", "forall_int(0, _i, lambda k: facility_initialized(self.facility_list[k], state_info, log_info))"),
                    ("todo", "forall_int(_i, len(self.facility_list), lambda k: let(self.facility_list[k], lambda r: r.state == old(r.state)"
                             " and same(r.assigned_task_list, old(r.assigned_task_list)) and same(r.state_record_list, old(r.state_record_list))"
                             " and same(r.cost_list, old(r.cost_list)) and same(r.assigned_task_id_record, old(r.assigned_task_id_record))))"),
                    ("kept", "implies(not state_info, unchanged('BaseFacility.state', 'BaseFacility.assigned_task_list'))"),
                    ("frame", " and ".join("unchanged_except('BaseFacility.%s', self.facility_list)" % f for f in RES_FIELDS))]})

contract("BaseProduct.initialize", props=["C08", "C14", "C09", "C15"], types={"state_info": "Bool", "log_info": "Bool"},
         requires=["forall(self.component_list, lambda c: c is not None and forall(c.targeted_task_list, lambda t: t is not None))",
                   "distinct_list(self.component_list)"],
         ensures=[("state", "forall(self.component_list, lambda c: ite(state_info, c.state == comp_next(c, BaseComponentState.NONE)"
                            " and c.placed_workplace is None, c.state == old(c.state) and c.placed_workplace is old(c.placed_workplace)))"),
                  ("logs", "forall(self.component_list, lambda c: ite(log_info, len(c.state_record_list) == 0 and len(c.placed_workplace_id_record) == 0,"
                           " component_logs_kept(c)))")],
         modifies=["BaseComponent.%s@self.component_list" % f for f in ("state", "placed_workplace", "error", "state_record_list", "placed_workplace_id_record")],
         loops={0: [("done-state", "forall_int(0, _i, lambda k: let(self.component_list[k], lambda c: ite(state_info, c.state == comp_next(c, BaseComponentState.NONE)"
                                   " and c.placed_workplace is None, c.state == old(c.state) and c.placed_workplace is old(c.placed_workplace))))"),
                    ("done-logs", "forall_int(0, _i, lambda k: let(self.component_list[k], lambda c: ite(log_info, len(c.state_record_list) == 0"
                                  " and len(c.placed_workplace_id_record) == 0, component_logs_kept(c))))"),
                    ("todo", "forall_int(_i, len(self.component_list), lambda k: let(self.component_list[k], lambda c: c.state == old(c.state)"
                             " and c.placed_workplace is old(c.placed_workplace) and component_logs_kept(c)))"),
                    ("frame", " and ".join("unchanged_except('BaseComponent.%s', self.component_list)" % f
                                           for f in ("state", "placed_workplace", "error", "state_record_list", "placed_workplace_id_record")))]})
