"""Step composition over BaseProject.simulate (DESIGN.md section 5): C05 safety, C08 alignment, C01/C07/C10 step clauses.

Callee contracts not stated elsewhere are here: organization initialize/record, workflow.initialize, project.initialize.
"""

# ------------------------------------------------------------------------------------------------ organization
RES_FIELDS = ("state", "assigned_task_list", "state_record_list", "cost_list", "assigned_task_id_record")
contract("BaseOrganization.initialize", props=["C08", "C09", "C15"], types={"state_info": "Bool", "log_info": "Bool"},
         requires=["org_wf(self)"],
         ensures=[("own-log", "ite(log_info, len(self.cost_list) == 0, same(self.cost_list, old(self.cost_list)))"),
                  ("teams", "forall(self.team_list, lambda t: ite(log_info, len(t.cost_list) == 0, same(t.cost_list, old(t.cost_list)))"
                            " and forall(t.worker_list, lambda w: worker_initialized(w, state_info, log_info)))"),
                  ("workplaces", "forall(self.workplace_list, lambda p: ite(log_info, len(p.cost_list) == 0 and len(p.placed_component_id_record) == 0,"
                                 " same(p.cost_list, old(p.cost_list)) and same(p.placed_component_id_record, old(p.placed_component_id_record)))"
                                 " and ite(state_info, len(p.placed_component_list) == 0, same(p.placed_component_list, old(p.placed_component_list)))"
                                 " and forall(p.facility_list, lambda f: facility_initialized(f, state_info, log_info)))"),
                  ("nothing-written-without-state-info", "implies(not state_info, unchanged('BaseWorker.state', 'BaseWorker.assigned_task_list', 'BaseFacility.state', 'BaseFacility.assigned_task_list'))")],
         modifies=["BaseOrganization.cost_list@self", "BaseTeam.cost_list@self.team_list", "BaseWorkplace.cost_list@self.workplace_list",
                   "BaseWorkplace.placed_component_id_record@self.workplace_list", "BaseWorkplace.placed_component_list@self.workplace_list"]
                  + ["BaseWorker.%s@flat_elems(self.team_list, lambda t: t.worker_list)" % f for f in RES_FIELDS]
                  + ["BaseFacility.%s@flat_elems(self.workplace_list, lambda p: p.facility_list)" % f for f in RES_FIELDS],
         loops={
             0: [("done", "forall_int(0, _i, lambda k: let(self.team_list[k], lambda t: ite(log_info, len(t.cost_list) == 0, same(t.cost_list, old(t.cost_list)))"
                          " and forall(t.worker_list, lambda w: worker_initialized(w, state_info, log_info))))"),
                 ("todo", "forall_int(_i, len(self.team_list), lambda k: let(self.team_list[k], lambda t: same(t.cost_list, old(t.cost_list))"
                          " and forall(t.worker_list, lambda r: r.state == old(r.state) and same(r.assigned_task_list, old(r.assigned_task_list))"
                          "   and same(r.state_record_list, old(r.state_record_list)) and same(r.cost_list, old(r.cost_list))"
                          "   and same(r.assigned_task_id_record, old(r.assigned_task_id_record)))))"),
                 ("kept", "implies(not state_info, unchanged('BaseWorker.state', 'BaseWorker.assigned_task_list', 'BaseFacility.state', 'BaseFacility.assigned_task_list'))"),
                 ("frame-w", " and ".join("unchanged_except('BaseWorker.%s', flat_elems(self.team_list, lambda t: t.worker_list))" % f for f in RES_FIELDS)),
                 ("frame", "unchanged_except('BaseTeam.cost_list', self.team_list) and unchanged('BaseWorkplace.cost_list') and unchanged('BaseWorkplace.placed_component_id_record')"
                           " and unchanged('BaseWorkplace.placed_component_list') and " + " and ".join("unchanged('BaseFacility.%s')" % f for f in RES_FIELDS))],
             1: [("teams-kept", "forall(self.team_list, lambda t: ite(log_info, len(t.cost_list) == 0, same(t.cost_list, old(t.cost_list)))"
                                " and forall(t.worker_list, lambda w: worker_initialized(w, state_info, log_info)))"),
                 ("done", "forall_int(0, _i, lambda k: let(self.workplace_list[k], lambda p: ite(log_info, len(p.cost_list) == 0 and len(p.placed_component_id_record) == 0,"
                          " same(p.cost_list, old(p.cost_list)) and same(p.placed_component_id_record, old(p.placed_component_id_record)))"
                          " and ite(state_info, len(p.placed_component_list) == 0, same(p.placed_component_list, old(p.placed_component_list)))"
                          " and forall(p.facility_list, lambda f: facility_initialized(f, state_info, log_info))))"),
                 ("todo", "forall_int(_i, len(self.workplace_list), lambda k: let(self.workplace_list[k], lambda p: same(p.cost_list, old(p.cost_list))"
                          " and same(p.placed_component_id_record, old(p.placed_component_id_record)) and same(p.placed_component_list, old(p.placed_component_list))"
                          " and forall(p.facility_list, lambda r: r.state == old(r.state) and same(r.assigned_task_list, old(r.assigned_task_list))"
                          "   and same(r.state_record_list, old(r.state_record_list)) and same(r.cost_list, old(r.cost_list))"
                          "   and same(r.assigned_task_id_record, old(r.assigned_task_id_record)))))"),
                 ("kept", "implies(not state_info, unchanged('BaseWorker.state', 'BaseWorker.assigned_task_list', 'BaseFacility.state', 'BaseFacility.assigned_task_list'))"),
                 ("frame-w", " and ".join("unchanged_except('BaseWorker.%s', flat_elems(self.team_list, lambda t: t.worker_list))" % f for f in RES_FIELDS)),
                 ("frame-f", " and ".join("unchanged_except('BaseFacility.%s', flat_elems(self.workplace_list, lambda p: p.facility_list))" % f for f in RES_FIELDS)),
                 ("frame", "unchanged_except('BaseWorkplace.cost_list', self.workplace_list) and unchanged_except('BaseWorkplace.placed_component_id_record', self.workplace_list)"
                           " and unchanged_except('BaseWorkplace.placed_component_list', self.workplace_list)")],
         })

define("worker_logged(w, working)",
       "appended(w.state_record_list, old(w.state_record_list), (w.state if working else BaseWorkerState.ABSENCE))"
       " and appended(w.assigned_task_id_record, old(w.assigned_task_id_record), [t.ID for t in w.assigned_task_list])")
define("facility_logged(f, working)",
       "appended(f.state_record_list, old(f.state_record_list), (f.state if working else BaseFacilityState.ABSENCE))"
       " and appended(f.assigned_task_id_record, old(f.assigned_task_id_record), [t.ID for t in f.assigned_task_list])")
define("org_refs(o)", "org_wf(o) and forall(o.team_list, lambda t: forall(t.worker_list, lambda w: forall(w.assigned_task_list, lambda x: x is not None)))"
                      " and forall(o.workplace_list, lambda p: forall(p.placed_component_list, lambda c: c is not None)"
                      "     and forall(p.facility_list, lambda f: forall(f.assigned_task_list, lambda x: x is not None)))")
contract("BaseOrganization.record", props=["C08"], types={"working": "Bool"},
         requires=["org_refs(self)"],
         ensures=[("workers", "forall(self.team_list, lambda t: forall(t.worker_list, lambda w: worker_logged(w, working)))"),
                  ("facilities", "forall(self.workplace_list, lambda p: forall(p.facility_list, lambda f: facility_logged(f, working)))"),
                  ("workplaces", "forall(self.workplace_list, lambda p: appended(p.placed_component_id_record, old(p.placed_component_id_record), [c.ID for c in p.placed_component_list]))")],
         modifies=["BaseWorker.state_record_list", "BaseWorker.assigned_task_id_record", "BaseFacility.state_record_list",
                   "BaseFacility.assigned_task_id_record", "BaseWorkplace.placed_component_id_record@self.workplace_list"],
         loops={
             0: [("done", "forall_int(0, _i, lambda k: forall(self.team_list[k].worker_list, lambda w: worker_logged(w, working)))"),
                 ("todo", "forall_int(_i, len(self.team_list), lambda k: forall(self.team_list[k].worker_list, lambda w:"
                          " same(w.state_record_list, old(w.state_record_list)) and same(w.assigned_task_id_record, old(w.assigned_task_id_record))))"),
                 ("frame", "unchanged('BaseFacility.state_record_list') and unchanged('BaseFacility.assigned_task_id_record') and unchanged('BaseWorkplace.placed_component_id_record')")],
             1: [("workers-kept", "forall(self.team_list, lambda t: forall(t.worker_list, lambda w: worker_logged(w, working)))"),
                 ("done", "forall_int(0, _i, lambda k: let(self.workplace_list[k], lambda p: forall(p.facility_list, lambda f: facility_logged(f, working))"
                          " and appended(p.placed_component_id_record, old(p.placed_component_id_record), [c.ID for c in p.placed_component_list])))"),
                 ("todo", "forall_int(_i, len(self.workplace_list), lambda k: let(self.workplace_list[k], lambda p: same(p.placed_component_id_record, old(p.placed_component_id_record))"
                          " and forall(p.facility_list, lambda f: same(f.state_record_list, old(f.state_record_list)) and same(f.assigned_task_id_record, old(f.assigned_task_id_record)))))"),
                 ("frame", "unchanged_except('BaseWorkplace.placed_component_id_record', self.workplace_list)")],
         })

# ------------------------------------------------------------------------------------------------ workflow / project initialize
TSF = ["est", "eft", "lst", "lft", "remaining_work_amount", "actual_work_amount", "allocated_worker_list",
       "allocated_facility_list", "additional_task_flag", "state"]
TLF = ["state_record_list", "remaining_work_amount_record_list", "allocated_worker_id_record", "allocated_facility_id_record"]
define("task_logs_empty(t)", "len(t.state_record_list) == 0 and len(t.remaining_work_amount_record_list) == 0"
                             " and len(t.allocated_worker_id_record) == 0 and len(t.allocated_facility_id_record) == 0")
define("task_reset(t, li)", "t.remaining_work_amount == t.default_work_amount * (1.0 - t.default_progress)"
                            " and len(t.allocated_worker_list) == 0 and len(t.allocated_facility_list) == 0")
define("task_dyn_kept(t)", "t.state == old(t.state) and t.remaining_work_amount == old(t.remaining_work_amount)"
                           " and same(t.allocated_worker_list, old(t.allocated_worker_list)) and same(t.allocated_facility_list, old(t.allocated_facility_list))")
contract("BaseWorkflow.initialize", props=["C08", "C01", "C02", "C09", "C15"], types={"state_info": "Bool", "log_info": "Bool"},
         requires=["wf_tasks(self)", "distinct_list(self.task_list)", "pert_refs(self)", "implies(state_info, has_tail(self))"],
         ensures=[
             ("logs", "forall(self.task_list, lambda t: ite(log_info, task_logs_empty(t), task_logs_kept(t)))"),
             ("reset", "implies(state_info, forall(self.task_list, lambda t: task_reset(t, log_info)))"),
             # C01: after initialisation a task is NONE, READY (only through an open start gate) or FINISHED (only if its default progress is complete)
             ("initial-states", "implies(state_info, forall(self.task_list, lambda t:"
                                " (t.state == BaseTaskState.NONE or t.state == BaseTaskState.READY or t.state == BaseTaskState.FINISHED)"
                                " and iff(t.state == BaseTaskState.FINISHED, log_info and t.default_progress >= 1.00 - 1e-10)"
                                " and implies(t.state == BaseTaskState.READY, start_gate(t))))"),
             ("kept", "implies(not state_info, forall(self.task_list, lambda t: task_dyn_kept(t)))"),
             ("nothing-written-without-state-info", "implies(not state_info, unchanged('BaseTask.allocated_worker_list', 'BaseTask.allocated_facility_list', 'BaseTask.state', 'BaseTask.remaining_work_amount'))"),
         ],
         modifies=["BaseTask.%s" % f for f in ("est", "eft", "lst", "lft")] + ["BaseTask.%s@self.task_list" % f for f in TSF[4:] + TLF]
                  + ["BaseTask.parent_workflow@self.task_list", "BaseWorkflow.critical_path_length@self"],
         loops={0: [
             ("done-a", "forall_int(0, _i, lambda k: task_init_a(self.task_list[k], state_info, log_info))"),
             ("done-b1", "forall_int(0, _i, lambda k: let(self.task_list[k], lambda t: implies(not state_info, t.est == old(t.est) and t.eft == old(t.eft) and t.lst == old(t.lst) and t.lft == old(t.lft))))"),
             ("done-b2", "forall_int(0, _i, lambda k: let(self.task_list[k], lambda t: implies(not state_info, t.remaining_work_amount == old(t.remaining_work_amount) and t.actual_work_amount == old(t.actual_work_amount))))"),
             ("done-b3", "forall_int(0, _i, lambda k: let(self.task_list[k], lambda t: implies(not state_info, same(t.allocated_worker_list, old(t.allocated_worker_list)) and same(t.allocated_facility_list, old(t.allocated_facility_list)))))"),
             ("done-b4", "forall_int(0, _i, lambda k: let(self.task_list[k], lambda t: implies(not state_info, t.additional_task_flag == old(t.additional_task_flag) and t.state == old(t.state))))"),
             ("done-c", "forall_int(0, _i, lambda k: task_init_c(self.task_list[k], state_info, log_info))"),
             ("todo", "forall_int(_i, len(self.task_list), lambda k: let(self.task_list[k], lambda t: task_dyn_kept(t) and task_logs_kept(t)"
                      " and t.est == old(t.est) and t.eft == old(t.eft) and t.lst == old(t.lst) and t.lft == old(t.lft)"
                      " and t.actual_work_amount == old(t.actual_work_amount) and t.additional_task_flag == old(t.additional_task_flag)))"),
             ("kept-arrays", "implies(not state_info, unchanged('BaseTask.allocated_worker_list', 'BaseTask.allocated_facility_list', 'BaseTask.state', 'BaseTask.remaining_work_amount'))"),
             ("frame", " and ".join("unchanged_except('BaseTask.%s', self.task_list)" % f for f in TSF + TLF + ["parent_workflow"])),
         ]})

contract("BaseProject.initialize", props=["C08", "C09", "C15"], types={"state_info": "Bool", "log_info": "Bool"},
         requires=["self.organization is not None and self.workflow is not None and self.product is not None",
                   "org_wf(self.organization)", "wf_tasks(self.workflow)", "distinct_list(self.workflow.task_list)", "pert_refs(self.workflow)",
                   "implies(state_info, has_tail(self.workflow))",
                   "forall(self.product.component_list, lambda c: c is not None and forall(c.targeted_task_list, lambda t: t is not None))",
                   "distinct_list(self.product.component_list)",
                   # WF.links: a resource that holds a task belongs to this organization
                   "forall_obj('BaseWorker', lambda w: len(w.assigned_task_list) == 0 or w in flat_elems(self.organization.team_list, lambda t: t.worker_list))",
                   "forall_obj('BaseFacility', lambda f: len(f.assigned_task_list) == 0 or f in flat_elems(self.organization.workplace_list, lambda p2: p2.facility_list))"],
         ensures=[
             # C03: a fresh state holds nothing; a kept state keeps exclusive two-way consistency
             ("exclusive-after-reset", "implies(state_info, holds_exclusively(self.workflow))"),
             ("exclusive-kept", "implies(not state_info and old(holds_exclusively(self.workflow)), holds_exclusively(self.workflow))"),
             ("own", "ite(log_info, self.time == 0 and len(self.cost_list) == 0 and self.simulation_mode == SimulationMode.NONE and self.status == BaseProjectStatus.NONE,"
                     " self.time == old(self.time) and same(self.cost_list, old(self.cost_list)) and self.simulation_mode == old(self.simulation_mode) and self.status == old(self.status))"),
             ("task-logs", "forall(self.workflow.task_list, lambda t: ite(log_info, task_logs_empty(t), task_logs_kept(t)))"),
             ("task-reset", "implies(state_info, forall(self.workflow.task_list, lambda t: task_reset(t, log_info)))"),
             ("task-kept", "implies(not state_info, forall(self.workflow.task_list, lambda t: task_dyn_kept(t)))"),
             ("org-log", "ite(log_info, len(self.organization.cost_list) == 0, seq_eq(self.organization.cost_list, old(self.organization.cost_list)))"),
             ("workers", "forall(self.organization.team_list, lambda t: ite(log_info, len(t.cost_list) == 0, same(t.cost_list, old(t.cost_list)))"
                         " and forall(t.worker_list, lambda w: worker_initialized(w, state_info, log_info)))"),
             ("facilities", "forall(self.organization.workplace_list, lambda p: ite(log_info, len(p.cost_list) == 0 and len(p.placed_component_id_record) == 0,"
                            " same(p.cost_list, old(p.cost_list)) and same(p.placed_component_id_record, old(p.placed_component_id_record)))"
                            " and forall(p.facility_list, lambda f: facility_initialized(f, state_info, log_info)))"),
             ("placed", "forall(self.organization.workplace_list, lambda p: ite(state_info, len(p.placed_component_list) == 0, same(p.placed_component_list, old(p.placed_component_list))))"),
             ("component-logs", "forall(self.product.component_list, lambda c: ite(log_info, len(c.state_record_list) == 0 and len(c.placed_workplace_id_record) == 0,"
                                " component_logs_kept(c)))"),
         ],
         modifies=["BaseProject.time@self", "BaseProject.cost_list@self", "BaseProject.simulation_mode@self", "BaseProject.status@self",
                   "BaseOrganization.cost_list@self.organization", "BaseTeam.cost_list@self.organization.team_list",
                   "BaseWorkplace.cost_list@self.organization.workplace_list", "BaseWorkplace.placed_component_id_record@self.organization.workplace_list",
                   "BaseWorkplace.placed_component_list@self.organization.workplace_list"]
                  + ["BaseWorker.%s@flat_elems(self.organization.team_list, lambda t: t.worker_list)" % f for f in RES_FIELDS]
                  + ["BaseFacility.%s@flat_elems(self.organization.workplace_list, lambda p: p.facility_list)" % f for f in RES_FIELDS]
                  + ["BaseTask.%s" % f for f in ("est", "eft", "lst", "lft", "state")]
                  + ["BaseTask.%s@self.workflow.task_list" % f for f in TSF[4:-1] + TLF + ["parent_workflow"]] + ["BaseWorkflow.critical_path_length@self.workflow"]
                  + ["BaseComponent.%s@self.product.component_list" % f for f in ("state", "placed_workplace", "error", "state_record_list", "placed_workplace_id_record")])

# ------------------------------------------------------------------------------------------------ assumed callee contracts
# (their own verification is a separate work item: bounded stand-in for __allocate, C13 for the placement functions)
define("alloc_wf(p)",
       "p.workflow is not None and p.organization is not None"
       " and forall(p.workflow.task_list, lambda t: t is not None and t.parent_workflow is not None and forall(t.allocated_workplace_list, lambda wp: wp is not None)"
       "     and implies(t.need_facility, t.target_component is not None))"          # WF.facility
       # WF.acyclic for the product structure: a rank strictly increasing from parent to child; children are distinct
       " and forall_obj('BaseComponent', lambda c: forall(c.child_component_list, lambda x: ghost_int('crank', c) < ghost_int('crank', x)) and distinct_list(c.child_component_list))"
       " and forall_obj('BaseComponent', lambda c: forall(c.child_component_list, lambda x: x is not None) and forall(c.parent_component_list, lambda x: x is not None)"
       "     and forall(c.targeted_task_list, lambda x: x is not None))"
       " and forall_obj('BaseWorkplace', lambda wp: forall(wp.facility_list, lambda f: f is not None) and forall(wp.placed_component_list, lambda c: c is not None)"
       "     and forall(wp.input_workplace_list, lambda x: x is not None))"
       " and forall(p.organization.team_list, lambda tm: tm is not None and forall(tm.worker_list, lambda w: w is not None))"
       " and forall(p.organization.workplace_list, lambda wp: wp is not None)"
       # WF.ids
       " and forall(p.organization.team_list, lambda tm: forall(tm.worker_list, lambda w: exists(p.organization.team_list, lambda t2: t2.ID == w.team_id)))"
       " and forall_obj('BaseFacility', lambda f: exists(p.organization.workplace_list, lambda w2: w2.ID == f.workplace_id))"
       " and forall_int(0, len(p.organization.team_list), lambda a: forall_int(0, len(p.organization.team_list), lambda b: implies(a != b, p.organization.team_list[a].ID != p.organization.team_list[b].ID)))"
       " and forall_int(0, len(p.organization.workplace_list), lambda a: forall_int(0, len(p.organization.workplace_list), lambda b: implies(a != b, p.organization.workplace_list[a].ID != p.organization.workplace_list[b].ID)))"
       # phase A has just run: a FREE resource holds nothing
       " and forall_obj('BaseWorker', lambda w: implies(w.state == BaseWorkerState.FREE, len(w.assigned_task_list) == 0))"
       " and forall_obj('BaseFacility', lambda f: implies(f.state == BaseFacilityState.FREE, len(f.assigned_task_list) == 0))"
       # C13(a): a workplace lists a component exactly when the component reports being placed there, children with their parent
       " and forall_obj('BaseWorkplace', lambda wp: forall(wp.placed_component_list, lambda c: c.placed_workplace is wp))"
       " and forall_obj('BaseComponent', lambda c: implies(c.placed_workplace is not None, c in c.placed_workplace.placed_component_list)"
       "     and forall(c.child_component_list, lambda ch: implies(c.placed_workplace is not None, ch.placed_workplace is c.placed_workplace)))")

contract("BaseProject.__allocate", props=["C03", "C04", "C06", "C11", "C13"],
         types={"task_priority_rule": "Enum(TaskPriorityRuleMode)"},
         requires=["self.workflow is not None and self.organization is not None",
                   "holds_exclusively(self.workflow)",
                   # C04 / C10: allocation sees resource states that are fresh from the absence lists of THIS step (an absent
                   # worker is ABSENCE, not FREE) - proved at the call site in simulate, so a phase moved in between is noticed
                   "forall(self.organization.team_list, lambda t: forall(t.worker_list, lambda w: w.state == w_state_rule(w, self.time)))",
                   "forall(self.organization.workplace_list, lambda p: forall(p.facility_list, lambda f: f.state == f_state_rule(f, self.time)))"],
         bounded_requires=["alloc_wf(self)"],
         ensures=[("bounded:consistency-preserved", "holds_exclusively(self.workflow)"),
                  ("bounded:placed-components-not-none", "forall_obj('BaseWorkplace', lambda p: forall(p.placed_component_list, lambda c: c is not None))"),
                  # C03(c): only READY or WORKING tasks receive resources
                  ("bounded:only-active-tasks-receive-resources", "forall(self.workflow.task_list, lambda t:"
                       " implies(len(t.allocated_worker_list) != old(len(t.allocated_worker_list)), t.state == BaseTaskState.READY or t.state == BaseTaskState.WORKING))"),
                  # C04: a newly allocated worker was FREE (hence present), skilled for the task, and its team targets the task
                  ("bounded:new-workers-eligible", "(forall(self.workflow.task_list, lambda t: forall(t.allocated_worker_list, lambda w:"
                       " exists(old(t.allocated_worker_list), lambda w0: w0 is w) or (old(w.state) == BaseWorkerState.FREE and has_skill(w, t.name)"
                       " and exists(self.organization.team_list, lambda tm: tm.ID == w.team_id and t in tm.targeted_task_list)))))"),
                  # C13(a): a workplace lists a component exactly when the component reports being placed there
                  ("bounded:placement-two-way", "forall_obj('BaseWorkplace', lambda wp: forall(wp.placed_component_list, lambda c: c.placed_workplace is wp))"
                                                " and forall_obj('BaseComponent', lambda c: implies(c.placed_workplace is not None, c in c.placed_workplace.placed_component_list))"),
                  # C13(e): a facility newly given to a task belongs to the workplace where the task's component is placed (at the end of the pass)
                  ("bounded:facilities-from-placed-workplace", "forall(self.workflow.task_list, lambda t: implies(t.need_facility, forall(t.allocated_facility_list, lambda f:"
                       " exists(old(t.allocated_facility_list), lambda f0: f0 is f) or (t.target_component.placed_workplace is not None"
                       " and exists(t.target_component.placed_workplace.facility_list, lambda g: g is f)))))"),
                  ("task-states-untouched", "unchanged('BaseTask.state')")],
         modifies=["BaseTask.allocated_worker_list", "BaseTask.allocated_facility_list", "BaseWorker.assigned_task_list",
                   "BaseFacility.assigned_task_list", "BaseComponent.placed_workplace", "BaseWorkplace.placed_component_list"])
contract("BaseProduct.check_removing_placed_workplace", props=["C13"],
         requires=[],
         ensures=[("bounded:placed-components-not-none", "forall_obj('BaseWorkplace', lambda p: forall(p.placed_component_list, lambda c: c is not None))")],
         modifies=["BaseComponent.placed_workplace", "BaseWorkplace.placed_component_list"],
         note="ASSUMED (frame only): verified separately under C13")

# ------------------------------------------------------------------------------------------------ simulate
define("sim_wf(p)",
       "p.workflow is not None and p.organization is not None and p.product is not None"
       " and wf_tasks(p.workflow) and distinct_list(p.workflow.task_list) and pert_refs(p.workflow) and has_tail(p.workflow)"
       " and org_refs(p.organization) and org_members_ok(p.organization)"
       " and forall(p.product.component_list, lambda c: c is not None and forall(c.targeted_task_list, lambda t: t is not None))"
       " and distinct_list(p.product.component_list)"
       # deterministic skills (C02 quantifier)
       " and forall_obj('BaseWorker', lambda w: forall_str(lambda n: sd_zero(w, n)))"
       " and forall_obj('BaseFacility', lambda f: forall_str(lambda n: sd_zero(f, n)))"
       # WF.links: a resource that holds a task belongs to this organization
       " and forall_obj('BaseWorker', lambda w: len(w.assigned_task_list) == 0 or w in flat_elems(p.organization.team_list, lambda t: t.worker_list))"
       " and forall_obj('BaseFacility', lambda f: len(f.assigned_task_list) == 0 or f in flat_elems(p.organization.workplace_list, lambda p2: p2.facility_list))")

# C08: every per-step log of the model has length n
define("aligned(p, n)",
       "len(p.cost_list) == n and org_aligned(p.organization, n)"
       " and forall(p.workflow.task_list, lambda t: task_aligned(t, n))"
       " and forall(p.product.component_list, lambda c: component_aligned(c, n))")

define("lifecycle_rank(s)", "ite(s == BaseTaskState.NONE, 0, ite(s == BaseTaskState.READY, 1, ite(s == BaseTaskState.WORKING, 2, ite(s == BaseTaskState.FINISHED, 3, 2))))")
T0 = "(0 if initialize_log_info else old(self.time))"
N0 = "(0 if initialize_log_info else old(len(self.cost_list)))"

contract("BaseProject.simulate", props=["C05", "C08", "C01", "C07", "C10"],
         types={"task_priority_rule": "Enum(TaskPriorityRuleMode)", "absence_time_list": "List[Int]",
                "perform_auto_task_while_absence_time": "Bool", "initialize_state_info": "Bool", "initialize_log_info": "Bool",
                "max_time": "Int", "unit_time": "Int"},
         fixed={"task_performed_mode": "'multi-workers'"},
         requires=["sim_wf(self)", "unit_time == 1",
                   "implies(not initialize_state_info, holds_exclusively(self.workflow))",
                   "forall_obj('BaseWorkplace', lambda p: forall(p.placed_component_list, lambda c: c is not None))",
                   "implies(not initialize_log_info, aligned(self, len(self.cost_list)))"],
         ensures=[
             # C05: truthful status, no step at or beyond max_time
             ("success-implies-all-finished", "implies(self.status == BaseProjectStatus.FINISHED_SUCCESS, forall(self.workflow.task_list, lambda t: t.state == BaseTaskState.FINISHED))"),
             ("all-finished-implies-success", "implies(forall(self.workflow.task_list, lambda t: t.state == BaseTaskState.FINISHED), self.status == BaseProjectStatus.FINISHED_SUCCESS)"),
             ("status-is-final", "self.status == BaseProjectStatus.FINISHED_SUCCESS or self.status == BaseProjectStatus.FINISHED_FAILURE"),
             ("failure-only-at-max-time", "implies(self.status == BaseProjectStatus.FINISHED_FAILURE, self.time >= max_time)"),
             ("no-step-at-or-beyond-max-time", "self.time <= max_time or self.time == %s" % T0),
             # C08: one entry per simulated step in every log, project.time counts them
             ("logs-aligned", "aligned(self, len(self.cost_list))"),
             ("time-counts-steps", "len(self.cost_list) - %s == self.time - %s and self.time >= %s" % (N0, T0, T0)),
             ("mode", "self.simulation_mode == SimulationMode.FORWARD"),
         ],
         modifies=["BaseProject.time@self", "BaseProject.cost_list@self", "BaseProject.simulation_mode@self", "BaseProject.status@self",
                   "BaseProject.absence_time_list@self", "BaseProject.perform_auto_task_while_absence_time@self",
                   "BaseOrganization.cost_list", "BaseTeam.cost_list", "BaseWorkplace.cost_list", "BaseWorkplace.placed_component_id_record",
                   "BaseWorkplace.placed_component_list"]
                  + ["BaseWorker.%s" % f for f in RES_FIELDS] + ["BaseFacility.%s" % f for f in RES_FIELDS]
                  + ["BaseTask.%s" % f for f in TSF + TLF + ["parent_workflow"]] + ["BaseWorkflow.critical_path_length"]
                  + ["BaseComponent.%s" % f for f in ("state", "placed_workplace", "error", "state_record_list", "placed_workplace_id_record")],
         loops={0: [
             ("exclusive", "holds_exclusively(self.workflow)"),
             ("placed-not-none", "forall_obj('BaseWorkplace', lambda p: forall(p.placed_component_list, lambda c: c is not None))"),
             ("aligned", "aligned(self, len(self.cost_list))"),
             ("time", "len(self.cost_list) - %s == self.time - %s and self.time >= %s" % (N0, T0, T0)),
             ("below-max", "self.time <= max_time or self.time == %s" % T0),
             ("mode", "self.simulation_mode == SimulationMode.FORWARD"),
             ("frame", "unchanged_except('BaseProject.time', self) and unchanged_except('BaseProject.cost_list', self)"
                       " and unchanged_except('BaseProject.status', self) and unchanged_except('BaseProject.simulation_mode', self)"),
             # C01: in one step every task moves forward along NONE, READY, WORKING, FINISHED (or stays)
             ("step:lifecycle-only-advances", "forall(self.workflow.task_list, lambda t: lifecycle_rank(at_head(t.state)) <= lifecycle_rank(t.state))"),
             # C10 clause 1: a project-wide absence step allocates nothing, logs every resource ABSENCE, charges nothing,
             # and only automatic tasks may progress (and only if the flag is set)
             ("step:absence-allocates-nothing", "implies(at_head(self.time) in absence_time_list, forall(self.workflow.task_list, lambda t:"
                  " len(t.allocated_worker_list) <= at_head(len(t.allocated_worker_list)) and len(t.allocated_facility_list) <= at_head(len(t.allocated_facility_list))))"),
             ("step:absence-logs-absence", "implies(at_head(self.time) in absence_time_list, forall(self.organization.team_list, lambda tm: forall(tm.worker_list, lambda w:"
                  " w.state_record_list[len(w.state_record_list) - 1] == BaseWorkerState.ABSENCE and w.cost_list[len(w.cost_list) - 1] == 0.0))"
                  " and forall(self.organization.workplace_list, lambda wp: forall(wp.facility_list, lambda f:"
                  " f.state_record_list[len(f.state_record_list) - 1] == BaseFacilityState.ABSENCE and f.cost_list[len(f.cost_list) - 1] == 0.0)))"),
             ("step:absence-no-manual-progress", "implies(at_head(self.time) in absence_time_list, forall(self.workflow.task_list, lambda t: implies(not t.auto_task or not perform_auto_task_while_absence_time,"
                  " t.remaining_work_amount == at_head(t.remaining_work_amount) or (t.remaining_work_amount == 0.0 and at_head(t.remaining_work_amount) < 0.0 + 1e-10))))"),
             # C14: when a step is recorded every component's state agrees with the states of its tasks
             ("step:component-state-follows-tasks", "forall(self.product.component_list, lambda c: implies(all_fin(c), c.state == BaseComponentState.FINISHED)"
                  " and implies(any_working(c), c.state == BaseComponentState.WORKING)"
                  " and implies(any_ready(c) or any_working(c), c.state != BaseComponentState.NONE))"),
             # C07: the project's entry for the step is the organization's
             ("step:project-cost-is-organization-cost", "self.cost_list[len(self.cost_list) - 1] == self.organization.cost_list[len(self.organization.cost_list) - 1]"),
         ]})
