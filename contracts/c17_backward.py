"""C17(a) — reverse_dependencies swaps the two link lists of every task / workplace (same objects, same order);
calling it twice restores the structure."""

contract("BaseWorkflow.reverse_dependencies", props=["C17"],
         requires=["forall(self.task_list, lambda t: t is not None)", "distinct_list(self.task_list)"],
         ensures=[("swapped", "forall(self.task_list, lambda t: same(t.input_task_list, old(t.output_task_list))"
                              " and same(t.output_task_list, old(t.input_task_list)))"),
                  ("task-list-untouched", "same(self.task_list, old(self.task_list))")],
         modifies=["BaseTask.input_task_list@self.task_list", "BaseTask.output_task_list@self.task_list",
                   "BaseTask.dummy_input_task_list@self.task_list", "BaseTask.dummy_output_task_list@self.task_list"],
         loops={0: [("saved", "forall_int(0, _i, lambda k: let(self.task_list[k], lambda t: same(t.dummy_output_task_list, old(t.input_task_list))"
                              " and same(t.dummy_input_task_list, old(t.output_task_list))))"),
                    ("frame", "unchanged_except('BaseTask.dummy_input_task_list', self.task_list) and unchanged_except('BaseTask.dummy_output_task_list', self.task_list)")],
                1: [("saved", "forall(self.task_list, lambda t: same(t.dummy_output_task_list, old(t.input_task_list))"
                              " and same(t.dummy_input_task_list, old(t.output_task_list)))"),
                    ("done", "forall_int(0, _i, lambda k: let(self.task_list[k], lambda t: same(t.input_task_list, old(t.output_task_list))"
                             " and same(t.output_task_list, old(t.input_task_list))))"),
                    ("todo", "forall_int(_i, len(self.task_list), lambda k: let(self.task_list[k], lambda t: same(t.input_task_list, old(t.input_task_list))"
                             " and same(t.output_task_list, old(t.output_task_list))))"),
                    ("frame", "unchanged_except('BaseTask.input_task_list', self.task_list) and unchanged_except('BaseTask.output_task_list', self.task_list)")]})

contract("BaseOrganization.reverse_dependencies", props=["C17"],
         requires=["forall(self.workplace_list, lambda t: t is not None)", "distinct_list(self.workplace_list)"],
         ensures=[("swapped", "forall(self.workplace_list, lambda t: same(t.input_workplace_list, old(t.output_workplace_list))"
                              " and same(t.output_workplace_list, old(t.input_workplace_list)))"),
                  ("workplace-list-untouched", "same(self.workplace_list, old(self.workplace_list))")],
         modifies=["BaseWorkplace.input_workplace_list@self.workplace_list", "BaseWorkplace.output_workplace_list@self.workplace_list",
                   "BaseWorkplace.dummy_input_workplace_list@self.workplace_list", "BaseWorkplace.dummy_output_workplace_list@self.workplace_list"],
         loops={0: [("saved", "forall_int(0, _i, lambda k: let(self.workplace_list[k], lambda t: same(t.dummy_output_workplace_list, old(t.input_workplace_list))"
                              " and same(t.dummy_input_workplace_list, old(t.output_workplace_list))))"),
                    ("frame", "unchanged_except('BaseWorkplace.dummy_input_workplace_list', self.workplace_list) and unchanged_except('BaseWorkplace.dummy_output_workplace_list', self.workplace_list)")],
                1: [("saved", "forall(self.workplace_list, lambda t: same(t.dummy_output_workplace_list, old(t.input_workplace_list))"
                              " and same(t.dummy_input_workplace_list, old(t.output_workplace_list)))"),
                    ("done", "forall_int(0, _i, lambda k: let(self.workplace_list[k], lambda t: same(t.input_workplace_list, old(t.output_workplace_list))"
                             " and same(t.output_workplace_list, old(t.input_workplace_list))))"),
                    ("todo", "forall_int(_i, len(self.workplace_list), lambda k: let(self.workplace_list[k], lambda t: same(t.input_workplace_list, old(t.input_workplace_list))"
                             " and same(t.output_workplace_list, old(t.output_workplace_list))))"),
                    ("frame", "unchanged_except('BaseWorkplace.input_workplace_list', self.workplace_list) and unchanged_except('BaseWorkplace.output_workplace_list', self.workplace_list)")]})
