"""Assumptions shared by every check (DESIGN.md 2.2); copied into each evidence file."""
A = [
    "A1: python float is modelled as a mathematical real and int as an unbounded integer; rounding is not verified (machine arithmetic treated as mathematical)",
    "A2: attribute access is a plain field read/write (static scan for property/__getattr__/__setattr__/descriptors in /repo/pDESy on every run: static:plain-attributes)",
    "A3: model objects compare and hash by identity (same scan: no __eq__/__hash__/__lt__ definitions)",
    "A4: IntEnum members are their integer values (member tables are re-read from the source on every run)",
    "A5: sorted() is a stable sort returning a permutation of its argument",
    "A6: iterating a set visits every element exactly once in an arbitrary (universally quantified) order",
    "A7: no reflection/monkey-patching; user subclasses satisfy the base-class contracts",
    "A8: `is` on strings/numbers is an uninterpreted relation that implies == (equal values need not be identical)",
    "A9: partial correctness: termination is not proved unless a variant is stated",
    "WF.unshared: list/dict attributes of distinct objects are distinct objects; NameError on a variable bound on one branch only is not modelled",
    "inputs are well-formed models (the `requires` clauses of each function under contract); user-built models violating them are outside the claim",
]
