"""C11(b) / C04 / C06 — what BaseProject.__allocate computes before its loop over the tasks (block `__allocate@candidates`, the
statements of the method up to `for task in ready_and_working_task_list`): the tasks that are served, their order, the free workers."""
T = "TaskPriorityRuleMode"
_task_rules = [
    ("TSLACK", "lambda t: t.lst - t.est", False),
    ("EST", "lambda t: t.est", False),
    ("SPT", "lambda t: t.default_work_amount", False),
    ("LPT", "lambda t: t.default_work_amount", True),
    ("FIFO", "lambda t: len([i for i in range(len(t.state_record_list)) if t.state_record_list[i] == BaseTaskState.READY])", True),
    ("LRPT", "lambda t: t.remaining_work_amount", True),
    ("SRPT", "lambda t: t.remaining_work_amount", False),
    ("LWRPT", "lambda t: t.parent_workflow.critical_path_length", True),
    ("SWRPT", "lambda t: t.parent_workflow.critical_path_length", False),
]
define("is_active(t)", "t.state == BaseTaskState.READY or t.state == BaseTaskState.WORKING")
contract("BaseProject.__allocate@candidates", props=["C11", "C04", "C06"],
         types={"task_priority_rule": "Enum(TaskPriorityRuleMode)"},
         requires=["self.workflow is not None and self.organization is not None",
                   "forall(self.workflow.task_list, lambda t: t is not None and t.parent_workflow is not None)",
                   "forall(self.organization.team_list, lambda tm: tm is not None and forall(tm.worker_list, lambda w: w is not None))",
                   "forall(self.organization.workplace_list, lambda wp: wp is not None)"],
         ensures=[("only-ready-or-working-tasks-are-served", "forall(final_ready_and_working_task_list, lambda t: t is not None and is_active(t) and t in self.workflow.task_list)"),
                  ("every-ready-or-working-task-is-served", "forall(self.workflow.task_list, lambda t: implies(is_active(t), t in final_ready_and_working_task_list))"),
                  ("only-free-workers-are-offered", "forall(final_free_worker_list, lambda w: w is not None and w.state == BaseWorkerState.FREE"
                                                    " and exists(self.organization.team_list, lambda tm: w in tm.worker_list))"),
                  # (that EVERY free worker of every team is offered is not decided: the position arithmetic of the flattened list
                  #  defeats the solver; stated in the evidence)
                  ("workplace-ids", "len(final_target_workplace_id_list) == len(self.organization.workplace_list) and forall_int(0, len(self.organization.workplace_list),"
                                    " lambda k: final_target_workplace_id_list[k] == self.organization.workplace_list[k].ID)")] +
                 # C11(b): the tasks are visited in the order of the project's task priority rule - no lower-priority task is served first
                 [("served-in-priority-order-" + r, "implies(task_priority_rule == %s.%s, sorted_by(final_ready_and_working_task_list, %s, %s))" % (T, r, key, rev))
                  for r, key, rev in _task_rules],
         modifies=[])
