"""C07 — cost accounting adds up at every level and charges only working resources (also C10: zero on absence)."""

define("charge_w(w, only_working, zero)", "ite(zero, 0.0, ite(only_working, ite(w.state == BaseWorkerState.WORKING, w.cost_per_time, 0.0), w.cost_per_time))")
define("charge_f(f, only_working, zero)", "ite(zero, 0.0, ite(only_working, ite(f.state == BaseFacilityState.WORKING, f.cost_per_time, 0.0), f.cost_per_time))")
# L1 is L0 with exactly one entry x appended
define("appended(L1, L0, x)", "len(L1) == len(L0) + 1 and L1[len(L0)] == x and forall_int(0, len(L0), lambda k: L1[k] == L0[k])")
define("team_cost(t, only_working, zero)", "sum_of(t.worker_list, lambda w: charge_w(w, only_working, zero))")
define("workplace_cost(p, only_working, zero)", "sum_of(p.facility_list, lambda f: charge_f(f, only_working, zero))")


def member_level(cls, attr, mem_cls, charge, zero_param, cost_def):
    L = "self." + attr
    def inv(only_working, zero):
        ch = "%s(%s[k], %s, %s)" % (charge, L, only_working, zero)
        return [
            ("charged", "forall_int(0, _i, lambda k: appended(%s[k].cost_list, old(%s[k].cost_list), %s))" % (L, L, ch)),
            ("not-yet", "forall_int(_i, len(%s), lambda k: seq_eq(%s[k].cost_list, old(%s[k].cost_list)))" % (L, L, L)),
            ("frame", "unchanged_except('%s.cost_list', %s)" % (mem_cls, L)),
            ("sum", "cost_this_time == sum_upto(%s, lambda m: %s(m, %s, %s), _i)" % (L, charge, only_working, zero)),
        ]
    contract("%s.add_labor_cost" % cls, props=["C07", "C10"],
             types={"only_working": "Bool", zero_param: "Bool"}, returns="Real",
             requires=["forall(%s, lambda m: m is not None)" % L, "distinct_list(%s)" % L],
             ensures=[
                 ("each-member-charged-once", "forall(%s, lambda m: appended(m.cost_list, old(m.cost_list), %s(m, only_working, %s)))" % (L, charge, zero_param)),
                 ("own-entry", "appended(self.cost_list, old(self.cost_list), result)"),
                 ("sum-of-members", "result == %s(self, only_working, %s)" % (cost_def, zero_param)),
             ],
             modifies=["%s.cost_list@%s" % (mem_cls, L), "%s.cost_list@self" % cls],
             loops={0: inv("only_working", zero_param), 1: inv("only_working", zero_param), 2: inv("only_working", zero_param)})


member_level("BaseTeam", "worker_list", "BaseWorker", "charge_w", "add_zero_to_all_workers", "team_cost")
member_level("BaseWorkplace", "facility_list", "BaseFacility", "charge_f", "add_zero_to_all_facilities", "workplace_cost")

define("org_wf(o)", "forall(o.team_list, lambda t: t is not None and forall(t.worker_list, lambda w: w is not None) and distinct_list(t.worker_list))"
                    " and forall(o.workplace_list, lambda p: p is not None and forall(p.facility_list, lambda f: f is not None) and distinct_list(p.facility_list))"
                    " and distinct_list(o.team_list) and distinct_list(o.workplace_list)"
                    # no worker in two teams, no facility in two workplaces (WF.distinct)
                    " and forall_int(0, len(o.team_list), lambda a: forall_int(0, len(o.team_list), lambda b: implies(a != b,"
                    "     forall(o.team_list[a].worker_list, lambda w: forall(o.team_list[b].worker_list, lambda w2: w is not w2)))))"
                    " and forall_int(0, len(o.workplace_list), lambda a: forall_int(0, len(o.workplace_list), lambda b: implies(a != b,"
                    "     forall(o.workplace_list[a].facility_list, lambda f: forall(o.workplace_list[b].facility_list, lambda f2: f is not f2)))))")

contract("BaseOrganization.add_labor_cost", props=["C07", "C10"],
         types={"only_working": "Bool", "add_zero_to_all_workers": "Bool", "add_zero_to_all_facilities": "Bool"}, returns="Real",
         requires=["org_wf(self)"],
         ensures=[
             ("workers-charged", "forall(self.team_list, lambda t: forall(t.worker_list, lambda w:"
                                 " appended(w.cost_list, old(w.cost_list), charge_w(w, only_working, add_zero_to_all_workers))))"),
             ("facilities-charged", "forall(self.workplace_list, lambda p: forall(p.facility_list, lambda f:"
                                    " appended(f.cost_list, old(f.cost_list), charge_f(f, only_working, add_zero_to_all_facilities))))"),
             ("teams", "forall(self.team_list, lambda t: appended(t.cost_list, old(t.cost_list), team_cost(t, only_working, add_zero_to_all_workers)))"),
             ("workplaces", "forall(self.workplace_list, lambda p: appended(p.cost_list, old(p.cost_list), workplace_cost(p, only_working, add_zero_to_all_facilities)))"),
             ("own-entry", "appended(self.cost_list, old(self.cost_list), result)"),
             ("sum-of-teams-and-workplaces", "result == sum_of(self.team_list, lambda t: team_cost(t, only_working, add_zero_to_all_workers))"
                                             " + sum_of(self.workplace_list, lambda p: workplace_cost(p, only_working, add_zero_to_all_facilities))"),
         ],
         modifies=["BaseWorker.cost_list", "BaseFacility.cost_list", "BaseTeam.cost_list@self.team_list",
                   "BaseWorkplace.cost_list@self.workplace_list", "BaseOrganization.cost_list@self"],
         loops={
             0: [
                 ("teams-done", "forall_int(0, _i, lambda k: let(self.team_list[k], lambda t: appended(t.cost_list, old(t.cost_list), team_cost(t, only_working, add_zero_to_all_workers))"
                                " and forall(t.worker_list, lambda w: appended(w.cost_list, old(w.cost_list), charge_w(w, only_working, add_zero_to_all_workers)))))"),
                 ("teams-todo", "forall_int(_i, len(self.team_list), lambda k: let(self.team_list[k], lambda t: seq_eq(t.cost_list, old(t.cost_list))"
                                " and forall(t.worker_list, lambda w: seq_eq(w.cost_list, old(w.cost_list)))))"),
                 ("frame", "unchanged_except('BaseTeam.cost_list', self.team_list) and unchanged('BaseFacility.cost_list') and unchanged('BaseWorkplace.cost_list')"),
                 ("sum", "cost_this_time == sum_upto(self.team_list, lambda t: team_cost(t, only_working, add_zero_to_all_workers), _i)"),
             ],
             1: [
                 ("wps-done", "forall_int(0, _i, lambda k: let(self.workplace_list[k], lambda p: appended(p.cost_list, old(p.cost_list), workplace_cost(p, only_working, add_zero_to_all_facilities))"
                              " and forall(p.facility_list, lambda f: appended(f.cost_list, old(f.cost_list), charge_f(f, only_working, add_zero_to_all_facilities)))))"),
                 ("wps-todo", "forall_int(_i, len(self.workplace_list), lambda k: let(self.workplace_list[k], lambda p: seq_eq(p.cost_list, old(p.cost_list))"
                              " and forall(p.facility_list, lambda f: seq_eq(f.cost_list, old(f.cost_list)))))"),
                 ("frame", "unchanged_except('BaseWorkplace.cost_list', self.workplace_list)"),
                 ("sum", "cost_this_time == pre(cost_this_time) + sum_upto(self.workplace_list, lambda p: workplace_cost(p, only_working, add_zero_to_all_facilities), _i)"),
             ],
         })
