"""C04 / C03 / C06 — the branch of the allocation loop that gives workers to a task which needs no facility
(block `BaseProject.__allocate@workers`, cut out of __allocate mechanically: pyvc.source.BLOCKS); one execution for one task."""

define("team_targets(p, w, t)", "exists(p.organization.team_list, lambda tm: tm.ID == w.team_id and t in tm.targeted_task_list)")
# can_add_spec (contracts/c04_eligibility.py) for a call without a facility
define("can_add_worker_spec(t, worker)",
       "t.state != BaseTaskState.NONE and t.state != BaseTaskState.FINISHED"
       " and forall(t.allocated_worker_list, lambda w: not w.solo_working)"
       " and forall(t.allocated_facility_list, lambda f: not f.solo_working)"
       " and implies(worker.solo_working, len(t.allocated_worker_list) == 0)"
       " and implies(not is_none(t.fixing_allocating_worker_id_list), worker.ID in t.fixing_allocating_worker_id_list)"
       " and has_skill(worker, t.name)")
define("newly_on(t, w)", "w in t.allocated_worker_list and not (w in old(t.allocated_worker_list))")

contract("BaseProject.__allocate@workers", props=["C04", "C03", "C06"],
         types={"task": "Ref(BaseTask)", "free_worker_list": "List[Ref(BaseWorker)]"},
         requires=["task is not None", "self.organization is not None", "forall(self.organization.team_list, lambda tm: tm is not None)",
                   "forall(free_worker_list, lambda w: w is not None and team_of(self, w))",
                   "forall_int(0, len(self.organization.team_list), lambda a: forall_int(0, len(self.organization.team_list), lambda b:"
                   " implies(a != b, self.organization.team_list[a].ID != self.organization.team_list[b].ID)))",
                   "forall(task.allocated_worker_list, lambda w: w is not None)", "forall(task.allocated_facility_list, lambda f: f is not None)",
                   # a FREE worker holds nothing: it is not on this task yet, and the candidates are distinct workers
                   "forall(free_worker_list, lambda w: not (w in task.allocated_worker_list))",
                   "forall_int(0, len(free_worker_list), lambda a: forall_int(0, len(free_worker_list), lambda b: implies(a != b, free_worker_list[a] is not free_worker_list[b])))"],
         ensures=[("earlier-workers-kept", "len(task.allocated_worker_list) >= old(len(task.allocated_worker_list))"
                                           " and forall_int(0, old(len(task.allocated_worker_list)), lambda k: task.allocated_worker_list[k] is old(task.allocated_worker_list)[k])"),
                  # C04: whoever is added was offered as free, is skilled for the task, belongs to a team that targets it, and was accepted by can_add_resources
                  ("new-workers-eligible", "forall(task.allocated_worker_list, lambda w: w in old(task.allocated_worker_list) or"
                                           " (w in free_worker_list and has_skill(w, task.name) and team_targets(self, w, task)))"),
                  ("only-ready-or-working-tasks-receive", "implies(len(task.allocated_worker_list) != old(len(task.allocated_worker_list)),"
                                                          " task.state != BaseTaskState.NONE and task.state != BaseTaskState.FINISHED)"),
                  ("solo-rules", "forall(task.allocated_worker_list, lambda w: implies(w.solo_working and not (w in old(task.allocated_worker_list)), len(task.allocated_worker_list) == 1))"),
                  # C03: the worker's own list gets the task exactly when the task's list gets the worker
                  ("two-way-new", "forall_obj('BaseWorker', lambda w: implies(newly_on(task, w), seq_eq(w.assigned_task_list, old(w.assigned_task_list) + [task])))"),
                  ("two-way-others", "forall_obj('BaseWorker', lambda w: implies(not newly_on(task, w), seq_eq(w.assigned_task_list, old(w.assigned_task_list))))"),
                  # C06(c): no offered worker who is eligible and could still be added stays behind
                  ("no-eligible-worker-left-idle", "forall(free_worker_list, lambda w: implies(has_skill(w, task.name) and team_targets(self, w, task)"
                                                   " and not (w in task.allocated_worker_list), not can_add_worker_spec(task, w)))"),
                  ("other-tasks-untouched", "unchanged_except('BaseTask.allocated_worker_list', task)")],
         modifies=["BaseTask.allocated_worker_list@task", "BaseWorker.assigned_task_list"],
         loops={0: [("earlier-workers-kept", "len(task.allocated_worker_list) >= old(len(task.allocated_worker_list))"
                                             " and forall_int(0, old(len(task.allocated_worker_list)), lambda k: task.allocated_worker_list[k] is old(task.allocated_worker_list)[k])"),
                    ("new-from-visited", "forall(task.allocated_worker_list, lambda w: w in old(task.allocated_worker_list) or exists_int(0, _i, lambda k: allocating_workers[k] is w))"),
                    ("solo-rules", "forall(task.allocated_worker_list, lambda w: implies(w.solo_working and not (w in old(task.allocated_worker_list)), len(task.allocated_worker_list) == 1))"),
                    ("two-way-new", "forall_obj('BaseWorker', lambda w: implies(newly_on(task, w), seq_eq(w.assigned_task_list, old(w.assigned_task_list) + [task])))"),
                    ("two-way-others", "forall_obj('BaseWorker', lambda w: implies(not newly_on(task, w), seq_eq(w.assigned_task_list, old(w.assigned_task_list))))"),
                    ("visited-decided", "forall_int(0, _i, lambda k: allocating_workers[k] in task.allocated_worker_list or not can_add_worker_spec(task, allocating_workers[k]))"),
                    ("only-ready-or-working-tasks-receive", "implies(len(task.allocated_worker_list) != old(len(task.allocated_worker_list)),"
                                                            " task.state != BaseTaskState.NONE and task.state != BaseTaskState.FINISHED)"),
                    ("candidates-complete", "forall(old(free_worker_list), lambda w: implies(has_skill(w, task.name) and team_targets(self, w, task),"
                                            " exists_int(0, _n, lambda k: allocating_workers[k] is w)))"),
                    ("free-not-none", "forall(free_worker_list, lambda w: w is not None)"),
                    ("candidates-distinct", "forall_int(0, _n, lambda a: forall_int(0, _n, lambda b: implies(a != b, allocating_workers[a] is not allocating_workers[b])))"),
                    ("unvisited-not-on", "forall_int(_i, _n, lambda k: not (allocating_workers[k] in task.allocated_worker_list))"),
                    ("frame", "unchanged_except('BaseTask.allocated_worker_list', task)")]})
