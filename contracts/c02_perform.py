"""C02 — remaining work changes only by the allocated contribution; C10 clause 2 (absent resource contributes 0)."""

define("has_skill(r, n)", "n in r.workamount_skill_mean_map and r.workamount_skill_mean_map[n] > 0.0 + 1e-10")
define("sd_zero(r, n)", "implies(n in r.workamount_skill_sd_map, r.workamount_skill_sd_map[n] == 0)")
define("is_working_task(t)", "t.state == BaseTaskState.WORKING or t.state == BaseTaskState.WORKING_ADDITIONALLY")
define("count_working(r)", "sum_of(r.assigned_task_list, lambda t: is_working_task(t))")
define("worker_progress(w, n)", "ite(has_skill(w, n) and w.state != BaseWorkerState.ABSENCE,"
                                " w.workamount_skill_mean_map[n] / to_real(count_working(w)), 0.0)")
define("facility_progress(f, n)", "ite(has_skill(f, n) and f.state != BaseFacilityState.ABSENCE,"
                                  " f.workamount_skill_mean_map[n] / to_real(count_working(f)), 0.0)")

for cls, st, prog in (("BaseWorker", "BaseWorkerState", "worker_progress"), ("BaseFacility", "BaseFacilityState", "facility_progress")):
    contract(cls + ".has_workamount_skill", props=["C02", "C04"], pure=True, result_is="has_skill(self, task_name)",
             types={"task_name": "Str"}, returns="Bool",
             ensures=[("def", "result == has_skill(self, task_name)")],
             modifies=[])
    contract(cls + ".get_work_amount_skill_progress", props=["C02", "C10"], pure=True,
             types={"task_name": "Str"}, returns="Real",
             requires=["sd_zero(self, task_name)",                       # deterministic skills (C02 quantifier)
                       "forall(self.assigned_task_list, lambda t: t is not None)",
                       # the divisor: a present, skilled resource is asked for progress only while it holds a working task
                       "implies(has_skill(self, task_name) and self.state != %s.ABSENCE, count_working(self) != 0)" % st],
             ensures=[
                 ("value", "result == %s(self, task_name)" % prog),
                 ("absent-or-unskilled-contributes-nothing",
                  "implies(self.state == %s.ABSENCE or not has_skill(self, task_name), result == 0.0)" % st),
                 ("exclusive-resource-contributes-its-skill",
                  "implies(has_skill(self, task_name) and self.state != %s.ABSENCE and len(self.assigned_task_list) == 1"
                  " and is_working_task(self.assigned_task_list[0]), result == self.workamount_skill_mean_map[task_name])" % st),
             ],
             modifies=[])

contract("BaseWorker.has_facility_skill", props=["C04"], pure=True,
         result_is="facility_name in self.facility_skill_map and self.facility_skill_map[facility_name] > 0.0 + 1e-10",
         types={"facility_name": "Str"}, returns="Bool",
         ensures=[("def", "result == (facility_name in self.facility_skill_map and self.facility_skill_map[facility_name] > 0.0 + 1e-10)")],
         modifies=[])

contract("BaseWorker.get_quality_skill_point", pure=False, types={"task_name": "Str"}, returns="Real",
         note="feeds only BaseComponent.error, which no property reads", ensures=[], modifies=[])
contract("BaseComponent.update_error_value", types={"no_error_prob": "Real", "error_increment": "Real"},
         note="random error model; only BaseComponent.error is written", ensures=[], modifies=["BaseComponent.error@self"])

# contribution of an exclusively held resource (C03) at one step: its skill, or nothing when absent/unskilled
define("excl_worker_progress(w, n)", "ite(has_skill(w, n) and w.state != BaseWorkerState.ABSENCE, w.workamount_skill_mean_map[n], 0.0)")
define("excl_facility_progress(f, n)", "ite(has_skill(f, n) and f.state != BaseFacilityState.ABSENCE, f.workamount_skill_mean_map[n], 0.0)")
define("min2(a, b)", "ite(a <= b, a, b)")
define("held_by(r, t)", "r is not None and len(r.assigned_task_list) == 1 and r.assigned_task_list[0] is t")

contract("BaseTask.perform", props=["C02", "C10"],
         types={"time": "Int", "increase_component_error": "Real"},
         requires=[
             # C03 at phase E: the resources of a task are held exclusively by it; deterministic skills (C02 quantifier)
             "forall(self.allocated_worker_list, lambda w: held_by(w, self) and sd_zero(w, self.name))",
             "forall(self.allocated_facility_list, lambda f: held_by(f, self) and sd_zero(f, self.name))",
         ],
         ensures=[
             ("other-states-untouched", "implies(self.state != BaseTaskState.WORKING, self.remaining_work_amount == old(self.remaining_work_amount))"),
             ("automatic", "implies(self.state == BaseTaskState.WORKING and self.auto_task,"
                           " self.remaining_work_amount == old(self.remaining_work_amount) - self.work_amount_progress_of_unit_step_time)"),
             ("workers", "implies(self.state == BaseTaskState.WORKING and not self.auto_task and not self.need_facility,"
                         " self.remaining_work_amount == old(self.remaining_work_amount)"
                         " - sum_of(self.allocated_worker_list, lambda w: excl_worker_progress(w, self.name)))"),
             ("worker-facility-pairs", "implies(self.state == BaseTaskState.WORKING and not self.auto_task and self.need_facility,"
                                       " self.remaining_work_amount == old(self.remaining_work_amount)"
                                       " - sum_of(range(min2(len(self.allocated_worker_list), len(self.allocated_facility_list))), lambda i:"
                                       "   excl_worker_progress(self.allocated_worker_list[i], self.name) * excl_facility_progress(self.allocated_facility_list[i], self.name)))"),
             ("state-kept", "self.state == old(self.state)"),
         ],
         modifies=["BaseTask.remaining_work_amount@self", "BaseComponent.error"],
         loops={
             0: [("acc", "work_amount_progress == sum_upto(range(min_length), lambda i: excl_worker_progress(self.allocated_worker_list[i], self.name)"
                         " * excl_facility_progress(self.allocated_facility_list[i], self.name), _i)"),
                 ("minlen", "min_length == min2(len(self.allocated_worker_list), len(self.allocated_facility_list))")],
             1: [("acc", "work_amount_progress == sum_upto(self.allocated_worker_list, lambda w: excl_worker_progress(w, self.name), _i)")],
         })

contract("BaseWorkflow.perform", props=["C02", "C10"],
         types={"time": "Int", "only_auto_task": "Bool", "increase_component_error": "Real"},
         requires=["forall(self.task_list, lambda t: t is not None and forall(t.allocated_worker_list, lambda w: held_by(w, t) and sd_zero(w, t.name))"
                   " and forall(t.allocated_facility_list, lambda f: held_by(f, t) and sd_zero(f, t.name)))",
                   "distinct_list(self.task_list)"],
         ensures=[
             ("skipped", "forall(self.task_list, lambda t: implies(t.state != BaseTaskState.WORKING or (only_auto_task and not t.auto_task),"
                         " t.remaining_work_amount == old(t.remaining_work_amount)))"),
             ("automatic", "forall(self.task_list, lambda t: implies(t.state == BaseTaskState.WORKING and t.auto_task,"
                           " t.remaining_work_amount == old(t.remaining_work_amount) - t.work_amount_progress_of_unit_step_time))"),
             ("workers", "forall(self.task_list, lambda t: implies(t.state == BaseTaskState.WORKING and not t.auto_task and not t.need_facility and not only_auto_task,"
                         " t.remaining_work_amount == old(t.remaining_work_amount) - sum_of(t.allocated_worker_list, lambda w: excl_worker_progress(w, t.name))))"),
         ],
         modifies=["BaseTask.remaining_work_amount@self.task_list", "BaseComponent.error"],
         loops={0: [
             ("done-skipped", "forall_int(0, _i, lambda k: let(self.task_list[k], lambda t: implies(t.state != BaseTaskState.WORKING or (only_auto_task and not t.auto_task),"
                              " t.remaining_work_amount == old(t.remaining_work_amount))))"),
             ("done-automatic", "forall_int(0, _i, lambda k: let(self.task_list[k], lambda t: implies(t.state == BaseTaskState.WORKING and t.auto_task,"
                                " t.remaining_work_amount == old(t.remaining_work_amount) - t.work_amount_progress_of_unit_step_time)))"),
             ("done-workers", "forall_int(0, _i, lambda k: let(self.task_list[k], lambda t: implies(t.state == BaseTaskState.WORKING and not t.auto_task and not t.need_facility and not only_auto_task,"
                              " t.remaining_work_amount == old(t.remaining_work_amount) - sum_of(t.allocated_worker_list, lambda w: excl_worker_progress(w, t.name)))))"),
             ("todo", "forall_int(_i, len(self.task_list), lambda k: self.task_list[k].remaining_work_amount == old(self.task_list[k].remaining_work_amount))"),
             ("frame", "unchanged_except('BaseTask.remaining_work_amount', self.task_list)"),
         ]})
