"""C14 — a component's state is determined by the states of its tasks."""

T, C = "BaseTaskState", "BaseComponentState"
define("all_fin(c)", "forall(c.targeted_task_list, lambda t: t.state == BaseTaskState.FINISHED)")
define("any_working(c)", "exists(c.targeted_task_list, lambda t: t.state == BaseTaskState.WORKING)")
define("any_ready(c)", "exists(c.targeted_task_list, lambda t: t.state == BaseTaskState.READY)")
# strongest postcondition of the three-stage update (value table)
define("comp_next(c, s0)",
       "ite(all_fin(c), BaseComponentState.FINISHED, ite(any_working(c), BaseComponentState.WORKING,"
       " ite(any_ready(c), BaseComponentState.READY, s0)))")

# the clauses of the property statement, over one update from state s0 to state s1
C14_CLAUSES = [
    ("finished-iff-all-finished", "implies(all_fin(self), self.state == BaseComponentState.FINISHED)"),
    ("finished-only-if", "implies(self.state == BaseComponentState.FINISHED, all_fin(self) or old(self.state) == BaseComponentState.FINISHED)"),
    ("working-if-any-working", "implies(any_working(self), self.state == BaseComponentState.WORKING)"),
    ("not-none-if-active", "implies(any_working(self) or any_ready(self), self.state != BaseComponentState.NONE)"),
    ("never-back-to-none", "implies(self.state == BaseComponentState.NONE, old(self.state) == BaseComponentState.NONE)"),
    ("stays-finished", "implies(old(self.state) == BaseComponentState.FINISHED and all_fin(self), self.state == BaseComponentState.FINISHED)"),
    ("value-table", "self.state == comp_next(self, old(self.state))"),
]

contract("BaseComponent.check_state", props=["C14"],
         requires=["forall(self.targeted_task_list, lambda t: t is not None)"],
         ensures=C14_CLAUSES,
         modifies=["BaseComponent.state@self"])

contract("BaseComponent.initialize", props=["C14", "C08"],
         types={"state_info": "Bool", "log_info": "Bool", "check_task_state": "Bool"},
         requires=["forall(self.targeted_task_list, lambda t: t is not None)"],
         ensures=[
             ("state", "implies(state_info and check_task_state, self.state == comp_next(self, BaseComponentState.NONE))"),
             ("state-nocheck", "implies(state_info and not check_task_state, self.state == BaseComponentState.NONE)"),
             ("placement", "implies(state_info, self.placed_workplace is None and self.error == 0.0)"),
             ("logs", "implies(log_info, len(self.state_record_list) == 0 and len(self.placed_workplace_id_record) == 0)"),
             ("keep-state", "implies(not state_info, self.state == old(self.state) and self.placed_workplace is old(self.placed_workplace) and self.error == old(self.error))"),
             ("keep-logs", "implies(not log_info, same(self.state_record_list, old(self.state_record_list))"
                           " and same(self.placed_workplace_id_record, old(self.placed_workplace_id_record)))"),
         ],
         modifies=["BaseComponent.state@self", "BaseComponent.placed_workplace@self", "BaseComponent.error@self",
                   "BaseComponent.state_record_list@self", "BaseComponent.placed_workplace_id_record@self"])

define("distinct_list(L)", "forall_int(0, len(L), lambda a: forall_int(0, len(L), lambda b: implies(a != b, L[a] is not L[b])))")

contract("BaseProduct.check_state", props=["C14"],
         requires=["forall(self.component_list, lambda c: c is not None and forall(c.targeted_task_list, lambda t: t is not None))",
                   "distinct_list(self.component_list)"],
         ensures=[("each-component", "forall(self.component_list, lambda c: c.state == comp_next(c, old(c.state)))")],
         modifies=["BaseComponent.state@self.component_list"],
         loops={0: [
             ("done", "forall_int(0, _i, lambda k: self.component_list[k].state == comp_next(self.component_list[k], old(self.component_list[k].state)))"),
             ("todo", "forall_int(_i, len(self.component_list), lambda k: self.component_list[k].state == old(self.component_list[k].state))"),
             ("frame", "unchanged_except('BaseComponent.state', self.component_list)"),
         ]})

contract("BaseComponent.record_state", props=["C14", "C08"],
         types={"working": "Bool"},
         ensures=[
             ("one-entry", "len(self.state_record_list) == old(len(self.state_record_list)) + 1"),
             ("keeps-history", "forall_int(0, old(len(self.state_record_list)), lambda k: self.state_record_list[k] == old(self.state_record_list)[k])"),
             ("entry", "self.state_record_list[old(len(self.state_record_list))] == (BaseComponentState.READY"
                       " if (not working and self.state == BaseComponentState.WORKING) else self.state)"),
         ],
         modifies=["BaseComponent.state_record_list@self"])
