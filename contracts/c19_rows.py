"""C19 — chart rows and set_last_datetime."""

FMT = '"%Y-%m-%d %H:%M:%S"'
define("row_ok(row, ent, label, name, typ, init, unit)",
       "row['Task'] == name and row['State'] == label and row['Type'] == typ"
       " and row['Start'] == (init + ent[0] * unit).strftime(" + FMT + ")"
       " and row['Finish'] == (init + (ent[0] + ent[1]) * unit).strftime(" + FMT + ")")




def rows(cls, typ, E, members):
    enc = "self.get_time_list_for_gannt_chart(finish_margin=finish_margin)"
    contract(cls + ".create_data_for_gantt_plotly",
             props=["C19"],
             types={"init_datetime": "Date", "unit_timedelta": "Delta", "finish_margin": "Int", "view_ready": "Bool"},
             returns="List[Record[Task:Str,Start:Str,Finish:Str,State:Str,Type:Str]]",
             requires=["forall(self.state_record_list, lambda s: %s)" % " or ".join("s == %s.%s" % (E, m) for m in members)],
             ensures=[
                 ("count", "let(%s, lambda rw: len(result) == (len(rw[0]) if view_ready else 0) + len(rw[1]))" % enc),
                 ("ready-rows", "let(%s, lambda rw: implies(view_ready, forall_int(0, len(rw[0]), lambda j:"
                                " row_ok(result[j], rw[0][j], 'READY', self.name, '%s', init_datetime, unit_timedelta))))" % (enc, typ)),
                 ("working-rows", "let(%s, lambda rw: forall_int(0, len(rw[1]), lambda j:"
                                  " row_ok(result[(len(rw[0]) if view_ready else 0) + j], rw[1][j], 'WORKING', self.name, '%s',"
                                  " init_datetime, unit_timedelta)))" % (enc, typ)),
             ],
             modifies=[],
             loops={
                 0: [("len", "len(df) == _i"),
                     ("rows", "forall_int(0, _i, lambda j: row_ok(df[j], ready_time_list[j], 'READY', self.name, '%s', init_datetime, unit_timedelta))" % typ)],
                 1: [("len", "len(df) == pre(len(df)) + _i"),
                     ("keep", "forall_int(0, pre(len(df)), lambda j: df[j] == pre(df)[j])"),
                     ("rows", "forall_int(0, _i, lambda j: row_ok(df[pre(len(df)) + j], working_time_list[j], 'WORKING', self.name, '%s', init_datetime, unit_timedelta))" % typ)],
             })


rows("BaseTask", "Task", "BaseTaskState", ["NONE", "READY", "WORKING", "FINISHED", "WORKING_ADDITIONALLY"])
rows("BaseComponent", "Component", "BaseComponentState", ["NONE", "READY", "WORKING", "FINISHED", "REMOVED"])

contract("BaseProject.set_last_datetime",
         props=["C19"],
         types={"last_datetime": "Date", "unit_timedelta": "Opt[Delta]", "set_init_datetime": "Bool"},
         returns="Date",
         requires=[],
         ensures=[
             ("last-step-on-date", "result + self.unit_timedelta * (self.time - 1) == last_datetime"),
             ("unit", "self.unit_timedelta == (old(self.unit_timedelta) if is_none(unit_timedelta) else unit_timedelta)"),
             ("init", "self.init_datetime == (result if set_init_datetime else old(self.init_datetime))"),
         ],
         modifies=["BaseProject.unit_timedelta@self", "BaseProject.init_datetime@self"])
