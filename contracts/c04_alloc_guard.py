"""C20 / C03 — the allocation statement of the task loop of __allocate as a whole (block `__allocate@allocation`: the `if` that
contains `if task.need_facility`, whatever its own test is): automatic tasks (sub-project tasks among them) receive nothing.
Requires and loop invariants are those of the two branch blocks (facility branch: loops 0, 1; worker branch: loop 2), which
are also verified on their own with their full postconditions."""
_reg = contract.__self__
_fb = _reg.contracts["BaseProject.__allocate@facilities"]
_wb = _reg.contracts["BaseProject.__allocate@workers"]
_common = [r for r in _wb.requires]
_fac_only = [r for r in _fb.requires if r not in _common]
contract("BaseProject.__allocate@allocation", props=["C20", "C03", "C04"],
         types={"task": "Ref(BaseTask)", "free_worker_list": "List[Ref(BaseWorker)]"},
         requires=_common + ["implies(task.need_facility, %s)" % r for r in _fac_only],
         ensures=[("automatic-tasks-receive-nothing", "implies(task.auto_task, unchanged('BaseTask.allocated_worker_list') and unchanged('BaseTask.allocated_facility_list')"
                                                      " and unchanged('BaseWorker.assigned_task_list') and unchanged('BaseFacility.assigned_task_list'))"),
                  ("other-tasks-untouched", "unchanged_except('BaseTask.allocated_worker_list', task) and unchanged_except('BaseTask.allocated_facility_list', task)")],
         modifies=["BaseTask.allocated_worker_list@task", "BaseTask.allocated_facility_list@task", "BaseWorker.assigned_task_list", "BaseFacility.assigned_task_list"],
         loops={0: list(_fb.loops[0]), 1: list(_fb.loops[1]), # (completeness of the candidate list is proved in the worker block itself; it is not needed for the clauses stated here)
                2: [(l, t) for l, t in _wb.loops[0] if l not in ("candidates-complete",)]},
         note="guard of the allocation statement; invariants shared with __allocate@facilities and __allocate@workers")
