"""C19 — extract_*_list queries: result = exactly the objects whose log shows the state at all requested times."""

define("log_matches(x, times, q)",
       "forall(times, lambda t: t < len(x.state_record_list) and x.state_record_list[t] == q)")


def query(owner, attr, elem_cls, enum, fname, coll_var, is_set):
    src = "self.%s" % attr
    inner_inv = [
        ("flag", "extract_flag"),
        ("prefix", "forall_int(0, _i, lambda j: target_time_list[j] < len(%s.state_record_list)"
                   " and %s.state_record_list[target_time_list[j]] == target_state)" % (coll_var, coll_var)),
    ]
    acc = {"BaseTask": "task_set", "BaseComponent": "component_set", "BaseWorker": "worker_list",
           "BaseFacility": "facility_list"}[elem_cls]
    outer_inv = [
        ("sound", "forall_obj('%s', lambda x: implies(x in %s, exists_int(0, _i, lambda k: %s[k] is x)"
                  " and log_matches(x, target_time_list, target_state)))" % (elem_cls, acc, src)),
        ("complete", "forall_int(0, _i, lambda k: implies(log_matches(%s[k], target_time_list, target_state), %s[k] in %s))"
                     % (src, src, acc)),
    ]
    contract("%s.%s" % (owner, fname),
             props=["C19"],
             types={"target_time_list": "List[Int]", "target_state": "Enum(%s)" % enum},
             returns="List[Ref(%s)]" % elem_cls,
             requires=["forall(target_time_list, lambda t: t >= 0)",
                       "forall(%s, lambda x: x is not None)" % src],
             ensures=[
                 ("only-matching", "forall(result, lambda x: exists(%s, lambda y: y is x) and log_matches(x, target_time_list, target_state))" % src),
                 ("all-matching", "forall(%s, lambda x: implies(log_matches(x, target_time_list, target_state), x in result))" % src),
             ],
             modifies=[],
             loops={0: outer_inv, 1: inner_inv})


query("BaseWorkflow", "task_list", "BaseTask", "BaseTaskState", "__extract_state_task_list", "task", True)
query("BaseProduct", "component_list", "BaseComponent", "BaseComponentState", "__extract_state_component_list", "component", True)
query("BaseTeam", "worker_list", "BaseWorker", "BaseWorkerState", "__extract_state_worker_list", "worker", False)
query("BaseWorkplace", "facility_list", "BaseFacility", "BaseFacilityState", "__extract_state_facility_list", "facility", False)

# the public wrappers fix the state and delegate; they are verified with the private function's contract
for owner, elem, enum, kind, states in (
        ("BaseWorkflow", "BaseTask", "BaseTaskState", "task", ["none", "ready", "working", "finished"]),
        ("BaseProduct", "BaseComponent", "BaseComponentState", "component", ["none", "ready", "working", "finished"]),
        ("BaseTeam", "BaseWorker", "BaseWorkerState", "worker", ["free", "working"]),
        ("BaseWorkplace", "BaseFacility", "BaseFacilityState", "facility", ["free", "working"])):
    attr = {"task": "task_list", "component": "component_list", "worker": "worker_list", "facility": "facility_list"}[kind]
    for s in states:
        contract("%s.extract_%s_%s_list" % (owner, s, kind),
                 props=["C19"],
                 types={"target_time_list": "List[Int]"},
                 returns="List[Ref(%s)]" % elem,
                 requires=["forall(target_time_list, lambda t: t >= 0)",
                           "forall(self.%s, lambda x: x is not None)" % attr],
                 ensures=[
                     ("only-matching", "forall(result, lambda x: exists(self.%s, lambda y: y is x) and log_matches(x, target_time_list, %s.%s))" % (attr, enum, s.upper())),
                     ("all-matching", "forall(self.%s, lambda x: implies(log_matches(x, target_time_list, %s.%s), x in result))" % (attr, enum, s.upper())),
                 ],
                 modifies=[])
