"""C12 — PERT/CPM values equal an independent critical-path computation (finish-to-start networks)."""

FS = "BaseTaskDependency.FS"
# a finite acyclic non-empty network has a task without successors (stated, not derived: needs induction on rank)
define("has_tail(wf)", "exists(wf.task_list, lambda x: x is not None and len(x.output_task_list) == 0)")
define("pert_wf(wf)",
       "len(wf.task_list) > 0 and distinct_list(wf.task_list)"
       " and forall(wf.task_list, lambda t: t is not None and t.remaining_work_amount >= 0"
       "     and forall(t.input_task_list, lambda p, d: p is not None and d == %s and exists(wf.task_list, lambda y: y is p)"
       "            and exists(p.output_task_list, lambda s, e: s is t and e == d)"
       "            and ghost_int('rank', p) < ghost_int('rank', t))"           # WF.acyclic: a rank witnesses acyclicity
       "     and forall(t.output_task_list, lambda s, d: s is not None and d == %s and exists(wf.task_list, lambda y: y is s)"
       "            and exists(s.input_task_list, lambda p, e: p is t and e == d)))" % (FS, FS))
# global non-None structure (for the frame/safety part, which is proved unbounded)
define("pert_refs(wf)", "forall(wf.task_list, lambda t: t is not None) and forall_obj('BaseTask', lambda t:"
                        " forall(t.output_task_list, lambda s, d: s is not None) and forall(t.input_task_list, lambda p, d: p is not None))")

FORWARD = [
    ("bounded:est-at-least-now", "implies(old(pert_wf(self)), forall(self.task_list, lambda x: x.est >= time))"),
    ("bounded:est-relaxed", "implies(old(pert_wf(self)), forall(self.task_list, lambda x: forall(x.input_task_list, lambda p, d: x.est >= p.est + p.remaining_work_amount)))"),
    ("bounded:est-tight", "implies(old(pert_wf(self)), forall(self.task_list, lambda x: x.est == time or exists(x.input_task_list, lambda p, d: x.est == p.est + p.remaining_work_amount)))"),
    ("bounded:eft", "implies(old(pert_wf(self)), forall(self.task_list, lambda x: x.eft == x.est + x.remaining_work_amount))"),
]
# the backward clauses are relative to the forward pass having just been run
FWD_DONE = "forall(self.task_list, lambda x: x.eft == x.est + x.remaining_work_amount)"
BACKWARD = [
    ("bounded:critical-path-length", "implies(old(pert_wf(self)), forall(self.task_list, lambda x: implies(len(x.output_task_list) == 0, x.eft <= self.critical_path_length))"
                                     " and exists(self.task_list, lambda x: len(x.output_task_list) == 0 and x.eft == self.critical_path_length))"),
    ("bounded:lft-of-tails", "implies(old(pert_wf(self)), forall(self.task_list, lambda x: implies(len(x.output_task_list) == 0, x.lft == self.critical_path_length)))"),
    ("bounded:lft-relaxed", "implies(old(pert_wf(self)), forall(self.task_list, lambda x: forall(x.output_task_list, lambda s, d: x.lft <= s.lst)))"),
    ("bounded:lft-tight", "implies(old(pert_wf(self)), forall(self.task_list, lambda x: implies(len(x.output_task_list) > 0, exists(x.output_task_list, lambda s, d: x.lft == s.lst))))"),
    ("bounded:lst", "implies(old(pert_wf(self)), forall(self.task_list, lambda x: x.lst == x.lft - x.remaining_work_amount))"),
]
NONNULL_SET = lambda s: [("members-not-none", "forall(%s, lambda x: x is not None)" % s)]

contract("BaseWorkflow.__set_est_eft_data", props=["C12"], types={"time": "Int"},
         requires=["pert_refs(self)"],
         ensures=FORWARD + [("remaining-untouched", "unchanged('BaseTask.remaining_work_amount')")],
         modifies=["BaseTask.est", "BaseTask.eft"],
         loops={0: NONNULL_SET("input_task_set"), 1: NONNULL_SET("input_task_set"),
                2: NONNULL_SET("input_task_set") + NONNULL_SET("next_task_set"), 3: NONNULL_SET("next_task_set")})

contract("BaseWorkflow.__set_lst_lft_criticalpath_data", props=["C12"], types={"time": "Int"},
         requires=["pert_refs(self)", "has_tail(self)"],
         ensures=[(l, e.replace("implies(old(pert_wf(self)),", "implies(old(pert_wf(self)) and old(%s)," % FWD_DONE, 1)) for l, e in BACKWARD],
         modifies=["BaseTask.lst", "BaseTask.lft", "BaseWorkflow.critical_path_length@self"],
         loops={0: [], 1: NONNULL_SET("output_task_set"), 2: NONNULL_SET("output_task_set"),
                3: NONNULL_SET("output_task_set") + NONNULL_SET("prev_task_set"), 4: NONNULL_SET("prev_task_set")})

contract("BaseWorkflow.update_PERT_data", props=["C12"], types={"time": "Int"},
         requires=["pert_refs(self)", "has_tail(self)"],
         ensures=FORWARD + BACKWARD + [
             ("bounded:slack-nonnegative", "implies(old(pert_wf(self)), forall(self.task_list, lambda x: x.lst - x.est >= 0))"),
         ],
         modifies=["BaseTask.est", "BaseTask.eft", "BaseTask.lst", "BaseTask.lft", "BaseWorkflow.critical_path_length@self"])
