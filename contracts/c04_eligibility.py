"""C04 — only eligible resources are allocated: BaseTask.can_add_resources and the team/workplace membership tests."""

define("can_add_spec(t, worker, facility)",
       "t.state != BaseTaskState.NONE and t.state != BaseTaskState.FINISHED"
       " and forall(t.allocated_worker_list, lambda w: not w.solo_working)"
       " and forall(t.allocated_facility_list, lambda f: not f.solo_working)"
       " and implies(worker is not None and worker.solo_working, len(t.allocated_worker_list) == 0)"
       " and implies(facility is not None and facility.solo_working, len(t.allocated_facility_list) == 0)"
       " and implies(worker is not None and not is_none(t.fixing_allocating_worker_id_list), worker.ID in t.fixing_allocating_worker_id_list)"
       " and implies(facility is not None and not is_none(t.fixing_allocating_facility_id_list), facility.ID in t.fixing_allocating_facility_id_list)"
       " and implies(facility is not None, len(facility.assigned_task_list) == 0)"
       " and ite(facility is not None,"
       "         has_skill(facility, t.name) and (facility.name in worker.facility_skill_map and worker.facility_skill_map[facility.name] > 0.0 + 1e-10)"
       "         and has_skill(worker, t.name),"
       "         worker is not None and has_skill(worker, t.name))")

contract("BaseTask.can_add_resources", props=["C04", "C03", "C06"], pure=True, result_is="can_add_spec(self, worker, facility)",
         types={"worker": "Ref(BaseWorker)", "facility": "Ref(BaseFacility)"}, returns="Bool",
         requires=["forall(self.allocated_worker_list, lambda w: w is not None)",
                   "forall(self.allocated_facility_list, lambda f: f is not None)",
                   # a facility is only ever offered together with a worker (call sites: base_project.py __allocate)
                   "implies(facility is not None, worker is not None)"],
         ensures=[
             ("exact", "result == can_add_spec(self, worker, facility)"),
             # the clauses of the property statement, for a resource that is accepted
             ("worker-skilled", "implies(result and worker is not None, has_skill(worker, self.name))"),
             ("worker-in-fixed-ids", "implies(result and worker is not None and not is_none(self.fixing_allocating_worker_id_list), worker.ID in self.fixing_allocating_worker_id_list)"),
             ("no-solo-mix-workers", "implies(result and worker is not None, forall(self.allocated_worker_list, lambda w: not w.solo_working)"
                                     " and implies(worker.solo_working, len(self.allocated_worker_list) == 0))"),
             ("no-solo-mix-facilities", "implies(result and facility is not None, forall(self.allocated_facility_list, lambda f: not f.solo_working)"
                                        " and implies(facility.solo_working, len(self.allocated_facility_list) == 0))"),
             ("facility-skilled-free-and-operable", "implies(result and facility is not None, has_skill(facility, self.name) and len(facility.assigned_task_list) == 0"
                                                    " and facility.name in worker.facility_skill_map and worker.facility_skill_map[facility.name] > 0.0 + 1e-10)"),
             ("facility-in-fixed-ids", "implies(result and facility is not None and not is_none(self.fixing_allocating_facility_id_list), facility.ID in self.fixing_allocating_facility_id_list)"),
             ("only-ready-or-working", "implies(result, self.state != BaseTaskState.NONE and self.state != BaseTaskState.FINISHED)"),
         ],
         modifies=[],
         loops={0: [("no-solo-so-far", "forall_int(0, _i, lambda k: not self.allocated_worker_list[k].solo_working)")],
                1: [("no-solo-so-far", "forall_int(0, _i, lambda k: not self.allocated_facility_list[k].solo_working)"),
                    ("workers", "forall(self.allocated_worker_list, lambda w: not w.solo_working)")]})

define("team_of(project, worker)", "exists(project.organization.team_list, lambda tm: tm.ID == worker.team_id)")
contract("BaseProject.__is_allocated_worker", props=["C04"], pure=True,
         types={"worker": "Ref(BaseWorker)", "task": "Ref(BaseTask)"}, returns="Bool",
         requires=["worker is not None", "self.organization is not None", "forall(self.organization.team_list, lambda tm: tm is not None)",
                   # WF.ids: the worker's team_id names a team of this organization, team IDs are unique
                   "exists(self.organization.team_list, lambda tm: tm.ID == worker.team_id)",
                   "forall_int(0, len(self.organization.team_list), lambda a: forall_int(0, len(self.organization.team_list), lambda b:"
                   " implies(a != b, self.organization.team_list[a].ID != self.organization.team_list[b].ID)))"],
         ensures=[("team-targets-task", "result == exists(self.organization.team_list, lambda tm: tm.ID == worker.team_id and task in tm.targeted_task_list)")],
         modifies=[])
contract("BaseProject.__is_allocated_facility", props=["C04"], pure=True,
         types={"facility": "Ref(BaseFacility)", "task": "Ref(BaseTask)"}, returns="Bool",
         requires=["facility is not None", "self.organization is not None", "forall(self.organization.workplace_list, lambda wp: wp is not None)",
                   "exists(self.organization.workplace_list, lambda wp: wp.ID == facility.workplace_id)",
                   "forall_int(0, len(self.organization.workplace_list), lambda a: forall_int(0, len(self.organization.workplace_list), lambda b:"
                   " implies(a != b, self.organization.workplace_list[a].ID != self.organization.workplace_list[b].ID)))"],
         ensures=[("workplace-targets-task", "result == exists(self.organization.workplace_list, lambda wp: wp.ID == facility.workplace_id and task in wp.targeted_task_list)")],
         modifies=[])
