"""C04 / C03 / C13(e) — the branch of the allocation loop that gives facility/worker pairs to a task which needs a facility
(block `BaseProject.__allocate@facilities`, cut out of __allocate mechanically: pyvc.source.BLOCKS); one execution for one task."""

define("workplace_targets(p, f, t)", "exists(p.organization.workplace_list, lambda wp: wp.ID == f.workplace_id and t in wp.targeted_task_list)")
define("f_newly_on(t, f)", "f in t.allocated_facility_list and not (f in old(t.allocated_facility_list))")

contract("BaseProject.__allocate@facilities", props=["C04", "C03", "C13"],
         types={"task": "Ref(BaseTask)", "free_worker_list": "List[Ref(BaseWorker)]"},
         requires=["task is not None", "task.target_component is not None", "self.organization is not None",
                   "forall(self.organization.team_list, lambda tm: tm is not None)", "forall(self.organization.workplace_list, lambda wp: wp is not None)",
                   "forall(free_worker_list, lambda w: w is not None and team_of(self, w))",
                   "forall_int(0, len(self.organization.team_list), lambda a: forall_int(0, len(self.organization.team_list), lambda b:"
                   " implies(a != b, self.organization.team_list[a].ID != self.organization.team_list[b].ID)))",
                   "forall_int(0, len(self.organization.workplace_list), lambda a: forall_int(0, len(self.organization.workplace_list), lambda b:"
                   " implies(a != b, self.organization.workplace_list[a].ID != self.organization.workplace_list[b].ID)))",
                   "forall(task.allocated_worker_list, lambda w: w is not None)", "forall(task.allocated_facility_list, lambda f: f is not None)",
                   "implies(task.target_component.placed_workplace is not None, forall(task.target_component.placed_workplace.facility_list, lambda f: f is not None"
                   " and exists(self.organization.workplace_list, lambda wp: wp.ID == f.workplace_id)))",
                   "implies(task.target_component.placed_workplace is not None, let(task.target_component.placed_workplace.facility_list, lambda FL:"
                   " forall_int(0, len(FL), lambda a: forall_int(0, len(FL), lambda b: implies(a != b, FL[a] is not FL[b])))"
                   " and forall(FL, lambda f: implies(f.state == BaseFacilityState.FREE, not (f in task.allocated_facility_list)))))",
                   "forall(free_worker_list, lambda w: not (w in task.allocated_worker_list))",
                   "forall_int(0, len(free_worker_list), lambda a: forall_int(0, len(free_worker_list), lambda b: implies(a != b, free_worker_list[a] is not free_worker_list[b])))"],
         ensures=[("earlier-resources-kept", "len(task.allocated_worker_list) >= old(len(task.allocated_worker_list))"
                                             " and forall_int(0, old(len(task.allocated_worker_list)), lambda k: task.allocated_worker_list[k] is old(task.allocated_worker_list)[k])"
                                             " and len(task.allocated_facility_list) >= old(len(task.allocated_facility_list))"
                                             " and forall_int(0, old(len(task.allocated_facility_list)), lambda k: task.allocated_facility_list[k] is old(task.allocated_facility_list)[k])"),
                  ("pairs", "len(task.allocated_worker_list) - old(len(task.allocated_worker_list)) == len(task.allocated_facility_list) - old(len(task.allocated_facility_list))"),
                  # C13(e): a facility given to the task belongs to the workplace where the task's component is placed
                  ("facilities-of-the-placed-workplace", "forall(task.allocated_facility_list, lambda f: f in old(task.allocated_facility_list) or"
                                                         " (task.target_component.placed_workplace is not None and f in task.target_component.placed_workplace.facility_list))"),
                  # C04: it was FREE, is skilled for the task, and its workplace targets the task
                  ("new-facilities-eligible", "forall(task.allocated_facility_list, lambda f: f in old(task.allocated_facility_list) or"
                                              " (old(f.state) == BaseFacilityState.FREE and has_skill(f, task.name) and workplace_targets(self, f, task)))"),
                  ("new-workers-eligible", "forall(task.allocated_worker_list, lambda w: w in old(task.allocated_worker_list) or"
                                           " (w in free_worker_list and has_skill(w, task.name) and team_targets(self, w, task)))"),
                  # C03: a resource's own list gets the task exactly when the task's list gets the resource
                  ("two-way-new-workers", "forall_obj('BaseWorker', lambda w: implies(newly_on(task, w), seq_eq(w.assigned_task_list, old(w.assigned_task_list) + [task])))"),
                  ("two-way-other-workers", "forall_obj('BaseWorker', lambda w: implies(not newly_on(task, w), seq_eq(w.assigned_task_list, old(w.assigned_task_list))))"),
                  ("two-way-new-facilities", "forall_obj('BaseFacility', lambda f: implies(f_newly_on(task, f), seq_eq(f.assigned_task_list, old(f.assigned_task_list) + [task])))"),
                  ("two-way-other-facilities", "forall_obj('BaseFacility', lambda f: implies(not f_newly_on(task, f), seq_eq(f.assigned_task_list, old(f.assigned_task_list))))"),
                  ("nothing-without-a-placement", "implies(task.target_component.placed_workplace is None, seq_eq(task.allocated_worker_list, old(task.allocated_worker_list))"
                                                  " and seq_eq(task.allocated_facility_list, old(task.allocated_facility_list)))"),
                  ("other-tasks-untouched", "unchanged_except('BaseTask.allocated_worker_list', task) and unchanged_except('BaseTask.allocated_facility_list', task)")],
         modifies=["BaseTask.allocated_worker_list@task", "BaseTask.allocated_facility_list@task", "BaseWorker.assigned_task_list", "BaseFacility.assigned_task_list"],
         loops={0: [("earlier-resources-kept", "len(task.allocated_worker_list) >= old(len(task.allocated_worker_list))"
                                               " and forall_int(0, old(len(task.allocated_worker_list)), lambda k: task.allocated_worker_list[k] is old(task.allocated_worker_list)[k])"
                                               " and len(task.allocated_facility_list) >= old(len(task.allocated_facility_list))"
                                               " and forall_int(0, old(len(task.allocated_facility_list)), lambda k: task.allocated_facility_list[k] is old(task.allocated_facility_list)[k])"),
                    ("pairs", "len(task.allocated_worker_list) - old(len(task.allocated_worker_list)) == len(task.allocated_facility_list) - old(len(task.allocated_facility_list))"),
                    ("new-facilities-from-visited", "forall(task.allocated_facility_list, lambda f: f in old(task.allocated_facility_list) or exists_int(0, _i, lambda k: allocating_facilities[k] is f))"),
                    ("new-workers-eligible", "forall(task.allocated_worker_list, lambda w: w in old(task.allocated_worker_list) or"
                                             " (w in old(free_worker_list) and has_skill(w, task.name) and team_targets(self, w, task)))"),
                    ("two-way-new-workers", "forall_obj('BaseWorker', lambda w: implies(newly_on(task, w), seq_eq(w.assigned_task_list, old(w.assigned_task_list) + [task])))"),
                    ("two-way-other-workers", "forall_obj('BaseWorker', lambda w: implies(not newly_on(task, w), seq_eq(w.assigned_task_list, old(w.assigned_task_list))))"),
                    ("two-way-new-facilities", "forall_obj('BaseFacility', lambda f: implies(f_newly_on(task, f), seq_eq(f.assigned_task_list, old(f.assigned_task_list) + [task])))"),
                    ("two-way-other-facilities", "forall_obj('BaseFacility', lambda f: implies(not f_newly_on(task, f), seq_eq(f.assigned_task_list, old(f.assigned_task_list))))"),
                    ("unvisited-facilities-not-on", "forall_int(_i, _n, lambda k: not (allocating_facilities[k] in task.allocated_facility_list))"),
                    ("facility-candidates-distinct", "forall_int(0, _n, lambda a: forall_int(0, _n, lambda b: implies(a != b, allocating_facilities[a] is not allocating_facilities[b])))"),
                    ("free-workers-not-on", "forall(free_worker_list, lambda w: not (w in task.allocated_worker_list))"),
                    ("free-workers-distinct", "forall_int(0, len(free_worker_list), lambda a: forall_int(0, len(free_worker_list), lambda b: implies(a != b, free_worker_list[a] is not free_worker_list[b])))"),
                    ("free-not-none", "forall(free_worker_list, lambda w: w is not None and team_of(self, w))"),
                    ("free-subset", "forall(free_worker_list, lambda w: w in old(free_worker_list))"),
                    ("lists-not-none", "forall(task.allocated_worker_list, lambda w: w is not None) and forall(task.allocated_facility_list, lambda f: f is not None)"),
                    ("frame", "unchanged_except('BaseTask.allocated_worker_list', task) and unchanged_except('BaseTask.allocated_facility_list', task)"
                              " and unchanged('BaseFacility.state')")],
                1: [("nothing-yet", "seq_eq(task.allocated_worker_list, pre(task.allocated_worker_list)) and seq_eq(task.allocated_facility_list, pre(task.allocated_facility_list))"
                                    " and seq_eq(free_worker_list, pre(free_worker_list)) and seq_eq(allocating_workers, pre(allocating_workers))"),
                    ("resources-untouched-yet", "forall_obj('BaseWorker', lambda w: seq_eq(w.assigned_task_list, pre(w.assigned_task_list)))"
                                                " and forall_obj('BaseFacility', lambda f: seq_eq(f.assigned_task_list, pre(f.assigned_task_list)))"),
                    ("frame", "unchanged_except('BaseTask.allocated_worker_list', task) and unchanged_except('BaseTask.allocated_facility_list', task)")]})
