"""Type schema: one entry per attribute assigned in any __init__ of pDESy/model (DESIGN.md 2.3).

The engine refuses attributes that are not listed here; `static:schema` (pyvc/static.py) checks on
every run that the set of attributes assigned through `self.` in the current sources is exactly
this table, so a new attribute added by an edit cannot be silently ignored.
"""

T_ = "Ref(BaseTask)"
SCHEMA = {
    "BaseTask": {
        "name": "Str", "ID": "Str",
        "default_work_amount": "Real",
        "work_amount_progress_of_unit_step_time": "Real",
        "input_task_list": "List[Tuple[Ref(BaseTask),Enum(BaseTaskDependency)]]",
        "output_task_list": "List[Tuple[Ref(BaseTask),Enum(BaseTaskDependency)]]",
        "allocated_team_list": "List[Ref(BaseTeam)]",
        "allocated_workplace_list": "List[Ref(BaseWorkplace)]",
        "parent_workflow": "Ref(BaseWorkflow)",
        "workplace_priority_rule": "Enum(WorkplacePriorityRuleMode)",
        "worker_priority_rule": "Enum(ResourcePriorityRuleMode)",
        "facility_priority_rule": "Enum(ResourcePriorityRuleMode)",
        "need_facility": "Bool",
        "target_component": "Ref(BaseComponent)",
        "default_progress": "Real",
        "due_time": "Int",
        "auto_task": "Bool",
        "fixing_allocating_worker_id_list": "Opt[List[Str]]",
        "fixing_allocating_facility_id_list": "Opt[List[Str]]",
        "est": "Real", "eft": "Real", "lst": "Real", "lft": "Real",
        "additional_work_amount": "Real", "actual_work_amount": "Real",
        "remaining_work_amount": "Real",
        "remaining_work_amount_record_list": "List[Real]",
        "state": "Enum(BaseTaskState)",
        "state_record_list": "List[Enum(BaseTaskState)]",
        "allocated_worker_list": "List[Ref(BaseWorker)]",
        "allocated_worker_id_record": "List[Opt[List[Str]]]",
        "allocated_facility_list": "List[Ref(BaseFacility)]",
        "allocated_facility_id_record": "List[Opt[List[Str]]]",
        "additional_task_flag": "Bool",
        # transient attributes of reverse_dependencies (created and deleted there)
        "dummy_output_task_list": "List[Tuple[Ref(BaseTask),Enum(BaseTaskDependency)]]",
        "dummy_input_task_list": "List[Tuple[Ref(BaseTask),Enum(BaseTaskDependency)]]",
    },
    "BaseSubProjectTask": {
        "file_path": "Opt[Str]",
        "unit_timedelta": "Delta",
        "read_json_fil_or_not": "Bool",
        "remove_absence_time_list": "Bool",
        "read_json_file": "Bool",
    },
    "BaseComponent": {
        "name": "Str", "ID": "Str",
        "parent_product": "Ref(BaseProduct)",
        "parent_component_list": "List[Ref(BaseComponent)]",
        "child_component_list": "List[Ref(BaseComponent)]",
        "targeted_task_list": "List[Ref(BaseTask)]",
        "space_size": "Real",
        "state": "Enum(BaseComponentState)",
        "state_record_list": "List[Enum(BaseComponentState)]",
        "placed_workplace": "Ref(BaseWorkplace)",
        "placed_workplace_id_record": "List[Opt[Str]]",
        "error_tolerance": "Real", "error": "Real",
    },
    "BaseWorker": {
        "name": "Str", "ID": "Str", "team_id": "Opt[Str]", "main_workplace_id": "Opt[Str]",
        "cost_per_time": "Real", "solo_working": "Bool",
        "workamount_skill_mean_map": "Dict[Str,Real]",
        "workamount_skill_sd_map": "Dict[Str,Real]",
        "absence_time_list": "List[Int]",
        "facility_skill_map": "Dict[Str,Real]",
        "quality_skill_mean_map": "Dict[Str,Real]",
        "quality_skill_sd_map": "Dict[Str,Real]",
        "state": "Enum(BaseWorkerState)",
        "state_record_list": "List[Enum(BaseWorkerState)]",
        "cost_list": "List[Real]",
        "assigned_task_list": "List[Ref(BaseTask)]",
        "assigned_task_id_record": "List[Opt[List[Str]]]",
    },
    "BaseFacility": {
        "name": "Str", "ID": "Str", "workplace_id": "Opt[Str]",
        "cost_per_time": "Real", "solo_working": "Bool",
        "workamount_skill_mean_map": "Dict[Str,Real]",
        "workamount_skill_sd_map": "Dict[Str,Real]",
        "absence_time_list": "List[Int]",
        "state": "Enum(BaseFacilityState)",
        "state_record_list": "List[Enum(BaseFacilityState)]",
        "cost_list": "List[Real]",
        "assigned_task_list": "List[Ref(BaseTask)]",
        "assigned_task_id_record": "List[Opt[List[Str]]]",
    },
    "BaseTeam": {
        "name": "Str", "ID": "Str",
        "worker_list": "List[Ref(BaseWorker)]",
        "targeted_task_list": "List[Ref(BaseTask)]",
        "parent_team": "Ref(BaseTeam)",
        "cost_list": "List[Real]",
    },
    "BaseWorkplace": {
        "name": "Str", "ID": "Str",
        "facility_list": "List[Ref(BaseFacility)]",
        "targeted_task_list": "List[Ref(BaseTask)]",
        "parent_workplace": "Ref(BaseWorkplace)",
        "max_space_size": "Real",
        "input_workplace_list": "List[Ref(BaseWorkplace)]",
        "output_workplace_list": "List[Ref(BaseWorkplace)]",
        "cost_list": "List[Real]",
        "placed_component_list": "List[Ref(BaseComponent)]",
        "placed_component_id_record": "List[Opt[List[Str]]]",
        "dummy_output_workplace_list": "List[Ref(BaseWorkplace)]",
        "dummy_input_workplace_list": "List[Ref(BaseWorkplace)]",
    },
    "BaseOrganization": {
        "team_list": "List[Ref(BaseTeam)]",
        "workplace_list": "List[Ref(BaseWorkplace)]",
        "cost_list": "List[Real]",
    },
    "BaseProduct": {
        "component_list": "List[Ref(BaseComponent)]",
    },
    "BaseWorkflow": {
        "task_list": "List[Ref(BaseTask)]",
        "critical_path_length": "Real",
    },
    "BaseProject": {
        "init_datetime": "Date", "unit_timedelta": "Delta",
        "absence_time_list": "List[Int]",
        "perform_auto_task_while_absence_time": "Bool",
        "product": "Ref(BaseProduct)",
        "organization": "Ref(BaseOrganization)",
        "workflow": "Ref(BaseWorkflow)",
        "time": "Int",
        "cost_list": "List[Real]",
        "simulation_mode": "Enum(SimulationMode)",
        "status": "Enum(BaseProjectStatus)",
    },
}

# the 17 per-step logs of the model (C08 log table), derived from the schema by name
def log_table():
    out = []
    for cls, attrs in SCHEMA.items():
        for a in attrs:
            if a.endswith("_record_list") or a.endswith("_id_record") or a == "cost_list":
                out.append((cls, a))
    return out
