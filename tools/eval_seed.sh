#!/bin/bash
# usage: tools/eval_seed.sh <scratch-worktree> <seed-dir> <name> <prop> [<prop> ...]
# Confirms a seeded change (suite passes with it, demo fails with it and passes without) and runs the given property checks
# against the PATCHED SCRATCH WORKTREE (PYVC_REPO) from a private copy of /verif, so /repo and /verif/evidence are never touched.
WT=$1; SD=$2; NAME=$3; shift 3
ROOT="$(cd "$(dirname "$0")/.." && pwd)"
VE=$(mktemp -d /tmp/ve_XXXXXX); rsync -a --exclude .git --exclude seeded "$ROOT"/ $VE/
cd $WT && git checkout -q -- pDESy && git apply $SD/patch.diff || { echo "[$NAME] PATCH-FAILS"; rm -rf $VE; exit 2; }
SUITE=$(PYTHONPATH=$WT /venv/bin/python -m pytest -q -p no:cacheprovider --timeout=900 2>&1 | tail -1)
PDESY_ROOT=$WT PYTHONPATH=$WT /venv/bin/python $SD/demo.py >/dev/null 2>&1; DW=$?
for P in "$@"; do
  t0=$(date +%s)
  (cd $VE && PYVC_REPO=$WT VERIF_JOBS=${JOBS:-8} timeout 3000 python3-vt check.py $P > $VE/out.log 2>&1); RC=$?
  echo "[$NAME $P] check rc=$RC in $(( $(date +%s) - t0 ))s"
  grep -E "VIOLATION|UNDECIDED|UNSUPPORTED|CRASH|PROOF-LOST|RETRIED|^property" $VE/out.log | cut -c1-300 | head -8 | sed "s/^/[$NAME $P] /"
done
cd $WT && git checkout -q -- pDESy
PDESY_ROOT=$WT PYTHONPATH=$WT /venv/bin/python $SD/demo.py >/dev/null 2>&1; DO=$?
echo "[$NAME] suite: $SUITE | demo with=$DW without=$DO"
rm -rf $VE
