#!/usr/bin/env python3
"""seed_results.py <log> [<log> ...]: reads the output of tools/eval_seed.sh and writes detected_by / ran into seeded/<id>/meta.json
(later logs override earlier ones for the same seed and property)"""
import json, os, re, sys
root = os.path.join(os.path.dirname(os.path.dirname(os.path.abspath(__file__))), "seeded")
res = {}
for fn in sys.argv[1:]:
    for line in open(fn, errors="replace"):
        m = re.match(r"\[(C\d\d-\d) (C\d\d)\] (.*)", line)
        if not m:
            continue
        name, prop, rest = m.groups()
        r = res.setdefault((name, prop), {"rc": None, "viol": [], "notes": []})
        if rest.startswith("check rc="):
            res[(name, prop)] = r = {"rc": int(rest.split("=")[1].split()[0]), "viol": [], "notes": [], "secs": rest.split(" in ")[-1].strip()}
        elif rest.startswith("VIOLATION"):
            ob = re.search(r"obligation=(\S+)", rest)
            r["viol"].append((ob.group(1) if ob else "?") + (" (counter-example replayed on the real code)" if "no-failing-input-found" not in rest and "replay=" in rest and ".noinput." not in rest else ""))
        elif rest.startswith(("PROOF-LOST", "UNDECIDED", "CHECKER-CRASH")):
            r["notes"].append(rest[:160])
by_seed = {}
for (name, prop), r in res.items():
    by_seed.setdefault(name, []).append((prop, r))
for name, items in sorted(by_seed.items()):
    mp = os.path.join(root, name, "meta.json")
    if not os.path.exists(mp):
        continue
    meta = json.load(open(mp))
    caught = [(p, r) for p, r in items if r["rc"] == 1 and r["viol"]]
    if caught:
        p, r = caught[0]
        txt = "caught by check %s (quick, exit 1): VIOLATION %s" % (p, r["viol"][0])
        if len(r["viol"]) > 1:
            txt += " (+%d more obligations)" % (len(r["viol"]) - 1)
        missed_by = [q for q, rr in items if rr["rc"] == 0]
        if missed_by:
            txt += "; check %s alone does not see it" % ", ".join(missed_by)
    else:
        notes = [n for _, r in items for n in r["notes"]]
        txt = "MISSED by check %s (quick, exit %s)%s" % (", ".join(p for p, _ in items), "/".join(str(r["rc"]) for _, r in items),
                                                        ("; " + notes[0]) if notes else "")
    meta["detected_by"] = txt
    meta["ran"] = "tools/eval_seed.sh <clean scratch worktree> seeded/%s %s %s" % (name, name, " ".join(p for p, _ in items))
    meta["confirmed_by_me"] = ("in a scratch worktree: patch applies, existing suite passes with the patch (176 passed), "
                               "demo.py exits non-zero with the patch and 0 without it (tools/eval_seed.sh)")
    json.dump(meta, open(mp, "w"), indent=1)
    print(name, "->", txt[:150])
