#!/bin/bash
# usage: tools/try_seed.sh <scratch-worktree> <seed-dir> <name> <prop> [<prop> ...]
# 1. confirms in the scratch worktree: suite passes with the patch, demo fails with / passes without it
# 2. applies the patch to /repo, runs the given property checks, restores /repo
WT=$1; SD=$2; NAME=$3; shift 3
cd $WT && git checkout -q -- pDESy && git apply $SD/patch.diff || { echo "PATCH-FAILS"; exit 2; }
SUITE=$(PYTHONPATH=$WT /venv/bin/python -m pytest -q -p no:cacheprovider --timeout=900 2>&1 | tail -1)
PDESY_ROOT=$WT PYTHONPATH=$WT /venv/bin/python $SD/demo.py >/dev/null 2>&1; DEMO_WITH=$?
git checkout -q -- pDESy
PDESY_ROOT=$WT PYTHONPATH=$WT /venv/bin/python $SD/demo.py >/dev/null 2>&1; DEMO_WITHOUT=$?
echo "[$NAME] suite: $SUITE | demo with patch exit=$DEMO_WITH, without exit=$DEMO_WITHOUT"
cd /repo && git apply $SD/patch.diff || { echo "PATCH-FAILS-ON-REPO"; exit 2; }
for P in "$@"; do
  cd /verif && timeout 1500 python3-vt check.py $P 2>&1 | grep -E "VIOLATION|UNDECIDED|UNSUPPORTED|CRASH|^property" | cut -c1-260 | sed "s/^/[$NAME $P] /"
done
git -C /repo checkout -q -- .
git -C /repo status --short | head -3
