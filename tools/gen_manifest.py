#!/usr/bin/env python3
"""Regenerates /verif/MANIFEST.json from contracts/props.py (claimed properties) and tools/na.json (unclaimed)."""
import importlib.util, json, os, sys
ROOT = os.path.dirname(os.path.dirname(os.path.abspath(__file__)))
spec = importlib.util.spec_from_file_location("props", os.path.join(ROOT, "contracts", "props.py"))
m = importlib.util.module_from_spec(spec); spec.loader.exec_module(m)
PROPS = m.PROPS
ids = [json.loads(l)["id"] for l in open(os.path.join(ROOT, "properties.jsonl"))]
na = json.load(open(os.path.join(ROOT, "tools", "na.json")))
checks = []
for pid in ids:
    if pid not in PROPS:
        continue
    P = PROPS[pid]
    checks.append({
        "property_id": pid,
        "quick_cmd": "python3-vt check.py %s --tier quick" % pid,
        "thorough_cmd": "python3-vt check.py %s --tier thorough" % pid,
        "evidence_file": "/verif/evidence/%s.json" % pid,
        "replay_cmd_template": "python3-vt check.py --replay {path}",
        "engine": "pyvc",
        "level_claimed": {"category": "proof", "text": P["level_text"], "design_ref": P.get("design_ref", "DESIGN.md section 6")},
        "level_note": P["level_note"],
        "technique": P.get("technique", "contract-based deductive verification: sidecar contracts on the real functions, "
                                        "VCs generated from /repo's AST on every run, discharged by z3 (cvc5 second opinion)"),
    })
man = {
    "version": 1,
    "setup_cmd": "python3-vt -m compileall -q pyvc contracts tools check.py >/dev/null 2>&1; python3-vt tools/selftest.py",
    "hooks": {"guard": "PDESY_VERIF",
              "enable": "no source hooks are needed: contracts are sidecar files under /verif/contracts and the verifier re-parses /repo/pDESy/model on every run (PYVC_REPO overrides the path)",
              "baseline_off_cmd": "cd /repo && /venv/bin/python -m pytest -ra -q -p no:cacheprovider --timeout=900 --continue-on-collection-errors",
              "source_commits": [], "add_only": True},
    "engines": [{"name": "pyvc", "path": "/verif/pyvc", "serves_properties": [c["property_id"] for c in checks],
                 "kind_free_text": "verification-condition generator for a Python subset (ast -> z3/cvc5): contracts, loop invariants, frames; UNROLL mode as counter-model finder / bounded stand-in; concrete replay on the real classes"}],
    "checks": checks,
    "notes": "See DESIGN.md. Repository fix commits are listed in known_findings.jsonl (fixed: lines).",
    "not_applicable": [{"property_id": p, "reason": na.get(p, "check not built yet (work in progress; DESIGN.md section 11 build order)")}
                       for p in ids if p not in PROPS],
}
json.dump(man, open(os.path.join(ROOT, "MANIFEST.json"), "w"), indent=1)
print("checks:", [c["property_id"] for c in checks], "na:", len(man["not_applicable"]))
