#!/bin/bash
# runs every registered check (quick tier); usage: tools/run_all.sh [--write-baseline]
cd "$(dirname "$0")/.."
rc=0
for p in $(python3 -c "import json;print(' '.join(c['property_id'] for c in json.load(open('MANIFEST.json'))['checks']))"); do
  timeout 1800 python3-vt check.py $p "$@" 2>&1 | grep -v "cannot be used in patterns" | grep -v "^LOST-OBLIGATION" | tail -4
  r=${PIPESTATUS[0]}; [ $r -ne 0 ] && rc=$r
done
exit $rc
