#!/usr/bin/env python3
"""writes seeded/SUMMARY.md from the meta.json files"""
import json, os, glob
root = os.path.join(os.path.dirname(os.path.dirname(os.path.abspath(__file__))), "seeded")
rows = []
for d in sorted(glob.glob(os.path.join(root, "*", "meta.json"))):
    m = json.load(open(d))
    name = os.path.basename(os.path.dirname(d))
    rows.append((name, m.get("property"), ", ".join(m.get("functions", []))[:70], m.get("detected_by", "")))
caught = sum(1 for r in rows if not r[3].startswith("MISSED"))
with open(os.path.join(root, "SUMMARY.md"), "w") as f:
    f.write("# Seeded changes: %d kept, %d caught, %d missed\n\n| id | property | changed | detected by |\n|---|---|---|---|\n" % (len(rows), caught, len(rows) - caught))
    for r in rows:
        f.write("| %s | %s | %s | %s |\n" % tuple(str(x).replace("|", "/") for x in r))
print(len(rows), caught)
