#!/usr/bin/env python3
"""setup self-test (MANIFEST.setup_cmd): the solver works, and the verifier itself is neither vacuous nor blind.

1. z3 refutes a contradiction and satisfies a satisfiable formula.
2. a function of the CURRENT /repo verifies against its contract (must pass);
3. the same function in a scratch copy of the model directory with a deliberately broken body must NOT verify
   (two mutations, each a regression test for an engine rule that was once unsound or blind):
     - `if x is not None:` on an optional list rewritten to `if x:`            (truthiness of Opt[List], seed C04-1)
     - the capacity test of can_put flipped from `>` to `<`                       (a wrong result must break `result == spec`)
The scratch copy lives in a temporary directory that is removed before the script ends; /repo is only read."""
import os
import shutil
import subprocess
import sys
import tempfile

import z3

ROOT = os.path.dirname(os.path.dirname(os.path.abspath(__file__)))
x = z3.Int("x")
s = z3.Solver(); s.add(x > 0, x < 0)
assert s.check() == z3.unsat
s = z3.Solver(); s.add(x > 0)
assert s.check() == z3.sat

REPO = os.environ.get("PYVC_REPO", "/repo")


def verify(qual, repo):
    env = dict(os.environ, PYVC_REPO=repo, PYTHONHASHSEED="0")
    p = subprocess.run([sys.executable, "-m", "pyvc.run", qual, "--timeout", "8000"], cwd=ROOT, env=env, capture_output=True, text=True, timeout=900)
    last = [l for l in p.stdout.splitlines() if l.startswith("undischarged:")]
    if not last:
        raise SystemExit("selftest: verifier produced no verdict for %s\n%s\n%s" % (qual, p.stdout[-600:], p.stderr[-600:]))
    gen = [l for l in p.stdout.splitlines() if l.startswith("generated ")]
    n = int(gen[0].split()[1]) if gen else 0
    return n, int(last[0].split(":")[1])


def mutated_copy(rel, old, new):
    d = tempfile.mkdtemp(prefix="pyvc_selftest_")
    shutil.copytree(os.path.join(REPO, "pDESy", "model"), os.path.join(d, "pDESy", "model"))
    p = os.path.join(d, "pDESy", "model", rel)
    text = open(p).read()
    if text.count(old) < 1:
        shutil.rmtree(d)
        return None          # the source no longer has this shape: the regression test does not apply
    open(p, "w").write(text.replace(old, new, 1))
    return d


results = []
for qual in ("BaseTask.can_add_resources", "BaseWorkplace.can_put"):
    n, bad = verify(qual, REPO)
    results.append("%s: %d obligations, %d open" % (qual, n, bad))
    if n == 0:
        raise SystemExit("selftest: no obligations generated for " + qual)
MUT = [("BaseTask.can_add_resources", "base_task.py", "if self.fixing_allocating_worker_id_list is not None:", "if self.fixing_allocating_worker_id_list:"),
       ("BaseWorkplace.can_put", "base_workplace.py", "if self.get_available_space_size() > component.space_size - error_tol:",
        "if self.get_available_space_size() < component.space_size - error_tol:")]
for qual, rel, old, new in MUT:
    d = mutated_copy(rel, old, new)
    if d is None:
        results.append("%s: mutation not applicable to the current source (skipped)" % qual)
        continue
    try:
        n, bad = verify(qual, d)
    finally:
        shutil.rmtree(d, ignore_errors=True)
    if bad == 0:
        raise SystemExit("selftest FAILED: the broken %s still verifies - the verifier is blind to this change" % qual)
    results.append("%s (broken on purpose): %d of %d obligations fail, as they must" % (qual, bad, n))
print("selftest ok: z3 %s; %s" % (z3.get_version_string(), "; ".join(results)))
