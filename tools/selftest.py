#!/usr/bin/env python3
"""setup self-test: solvers importable, must-fail obligation is refuted, must-pass is proved."""
import sys
import z3
x = z3.Int("x")
s = z3.Solver(); s.add(x > 0, x < 0)
assert s.check() == z3.unsat
s = z3.Solver(); s.add(x > 0)
assert s.check() == z3.sat
print("selftest ok: z3", z3.get_version_string())
