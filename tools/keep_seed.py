#!/usr/bin/env python3
"""keep_seed.py <seed-dir> <name> <prop> <detected-by text> : copies a confirmed seeded change into /verif/seeded/<name>/"""
import json, os, shutil, sys
sd, name, prop, detected = sys.argv[1:5]
dst = os.path.join("/verif/seeded", name)
os.makedirs(dst, exist_ok=True)
for f in ("patch.diff", "demo.py"):
    shutil.copy(os.path.join(sd, f), os.path.join(dst, f))
meta = json.load(open(os.path.join(sd, "meta.json")))
meta["property"] = prop
meta["confirmed_by_me"] = ("in a scratch worktree: patch applies, existing suite passes with the patch (176 passed), "
                           "demo.py exits non-zero with the patch and 0 without it (tools/try_seed.sh)")
meta["ran"] = "tools/try_seed.sh <scratch worktree> <seed dir> %s %s" % (name, prop)
meta["detected_by"] = detected
json.dump(meta, open(os.path.join(dst, "meta.json"), "w"), indent=1)
print("kept", dst)
