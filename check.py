#!/usr/bin/env python3
"""Property check driver.

    python3-vt check.py <PROPERTY> [--tier quick|thorough] [--jobs N]
    python3-vt check.py --replay <replay.json>

Exit 0: every obligation generated from /repo's current source was discharged (or is a listed known finding);
exit 1 + `VIOLATION property=<id> replay=<path>`: a property-stating obligation is refuted / no longer discharged;
exit 3: checker crash (never reported as a violation).  See DESIGN.md section 3.4.
"""
import argparse
import fnmatch
import json
import multiprocessing as mp
import os
import subprocess
import sys
import time

ROOT = os.path.dirname(os.path.abspath(__file__))
sys.path.insert(0, ROOT)
REPO = os.environ.get("PYVC_REPO", "/repo")
VENV_PY = "/venv/bin/python"

PROPERTY_KINDS = ("post", "pre", "frame", "safe", "static", "lemma")


def load_props():
    import importlib.util
    spec = importlib.util.spec_from_file_location("props", os.path.join(ROOT, "contracts", "props.py"))
    m = importlib.util.module_from_spec(spec)
    spec.loader.exec_module(m)
    return m.PROPS


def load_known():
    out = []
    p = os.path.join(ROOT, "known_findings.jsonl")
    if os.path.exists(p):
        for line in open(p):
            line = line.strip()
            if line and not line.startswith("#") and not line.startswith("fixed:"):
                out.append(json.loads(line))
    return out


def load_baseline():
    p = os.path.join(ROOT, "baseline_obligations.json")
    if os.path.exists(p):
        return json.load(open(p))
    return {}


def run_static(name):
    from pyvc import static
    t0 = time.time()
    try:
        recs = getattr(static, name)()
    except Exception as ex:
        import traceback
        return {"unit": {"kind": "static", "qual": name}, "obligations": [], "error": "%s: %s\n%s" % (
            type(ex).__name__, ex, traceback.format_exc()[-1200:]), "wall_s": time.time() - t0}
    return {"unit": {"kind": "static", "qual": name}, "obligations": recs, "error": None, "wall_s": time.time() - t0}


def _work(unit):
    if unit["kind"] == "static":
        return run_static(unit["qual"])
    from pyvc.runner import run_unit
    return run_unit(unit)


def replay_on_real_code(prop, rec, model, reg, kind, outdir):
    """materialise the counter-model with the real classes and run the real function"""
    from pyvc.contracts import load_registry
    qual = model["qual"]
    c = reg.get(qual)
    data = dict(model)
    data["requires"] = list(c.requires) if c else []
    data["defs"] = {k: [v[0], v[1]] for k, v in reg.defs.items()}
    data["kind"] = "safe" if kind == "safe" else "post"
    data["clause"] = rec.get("clause")
    if "iterated-list-not-edited" in rec["name"] and c is not None:
        # side condition of the verifier's loop semantics (python iterates the live list): the engine's own result for this
        # function is void, so the real function is run on the counter-model and its whole contract is evaluated natively
        data["kind"] = "post"
        data["clause"] = " and ".join("(%s)" % t for l, t in c.ensures_labeled
                                      if not l.startswith(("bounded:", "step:", "trusted:"))) or "True"
    data["obligation"] = rec["name"]
    data["property"] = prop
    os.makedirs(outdir, exist_ok=True)
    fn = os.path.join(outdir, rec["name"].replace("/", "__").replace(":", "_").replace("#", "_") + ".json")
    json.dump(data, open(fn, "w"), indent=1, default=str)
    env = dict(os.environ)
    env["PYTHONPATH"] = REPO
    try:
        p = subprocess.run([VENV_PY, os.path.join(ROOT, "pyvc", "replay_real.py"), fn, REPO], capture_output=True,
                           text=True, timeout=120, env=env, cwd="/")
        last = [l for l in p.stdout.strip().split("\n") if l.strip()]
        res = json.loads(last[-1]) if last else {"error": "no output", "stderr": p.stderr[-800:]}
    except Exception as ex:
        res = {"error": "%s: %s" % (type(ex).__name__, ex)}
    data["replay_result"] = res
    json.dump(data, open(fn, "w"), indent=1, default=str)
    return fn, res


def _norm(name):
    import re
    n = re.sub(r"\[[^\]]*\]", "", name)
    return re.sub(r"(\.\d+)+$", "", n)


def finding_matches(k, prop, name, model):
    if k.get("property") != prop:
        return False
    pats = k.get("obligations", [])
    if not any(fnmatch.fnmatch(name, p) or name.endswith(p) for p in pats):
        return False
    pred = k.get("model_pred")
    if pred and model is not None:
        try:
            return bool(eval(pred, {"params": model.get("params", {}), "objects": model.get("objects", {}),
                                    "model": model}))
        except Exception:
            return False
    return True


def main():
    # verification conditions are built in the iteration order of python sets/dicts of strings: fix the hash seed so that the
    # same source gives the same formulas (and hence the same solver behaviour) on every run
    if os.environ.get("PYTHONHASHSEED") != "0":
        os.environ["PYTHONHASHSEED"] = "0"
        os.execv(sys.executable, [sys.executable] + sys.argv)
    ap = argparse.ArgumentParser()
    ap.add_argument("prop", nargs="?")
    ap.add_argument("--tier", default=os.environ.get("VERIF_TIER", "quick"))
    ap.add_argument("--jobs", type=int, default=int(os.environ.get("VERIF_JOBS", "16")))
    ap.add_argument("--replay", default=None)
    ap.add_argument("--write-baseline", action="store_true")
    a = ap.parse_args()
    if a.replay:
        env = dict(os.environ)
        env["PYTHONPATH"] = REPO
        path = os.path.abspath(a.replay)
        if path.endswith(".noinput.json"):
            d = json.load(open(path))
            print("no failing input was found for this violation; failed obligation: %s\nsolver: %s %s\nclause: %s" % (
                d.get("obligation"), d.get("solver_result"), d.get("reason") or "", d.get("clause") or d.get("details") or ""))
            sys.exit(1)
        p = subprocess.run([VENV_PY, os.path.join(ROOT, "pyvc", "replay_real.py"), path, REPO], env=env, cwd="/", capture_output=True, text=True)
        print(p.stdout.strip())
        if p.stderr.strip():
            print(p.stderr.strip()[-800:])
        try:
            res = json.loads([l for l in p.stdout.strip().split("\n") if l.strip()][-1])
        except Exception:
            sys.exit(3)
        # exit 1: the stored input makes the real code violate the clause again; exit 0: it does not (any more)
        sys.exit(1 if res.get("reproduced") else 0)
    prop = a.prop
    tier = a.tier if a.tier in ("quick", "thorough") else "quick"
    seed = int(os.environ.get("VERIF_SEED", "0") or 0)
    t_start = time.time()
    try:
        rc = run_property(prop, tier, seed, a.jobs, a.write_baseline, t_start)
    except SystemExit:
        raise
    except Exception as ex:
        import traceback
        traceback.print_exc()
        print("CHECKER-CRASH property=%s %s: %s" % (prop, type(ex).__name__, ex))
        sys.exit(3)
    sys.exit(rc)


def run_property(prop, tier, seed, jobs, write_baseline, t_start):
    PROPS = load_props()
    if prop not in PROPS:
        print("unknown property", prop)
        return 3
    P = PROPS[prop]
    from pyvc.contracts import load_registry
    from pyvc.source import Source, tree_digest, repo_head
    reg = load_registry()
    src = Source()
    timeout_ms = 20000 if tier == "quick" else 120000
    units = []
    for q in P.get("inv", []):
        units.append({"kind": "inv", "qual": q, "timeout_ms": timeout_ms, "sample": True})
    for b in P.get("bounded", []):
        u = {"kind": "unroll", "qual": b["qual"], "bound": b.get("bound", 3) + (1 if tier == "thorough" and b.get("deepen", True) else 0),
             "nrefs": b.get("nrefs", 4), "nstrs": b.get("nstrs", 4), "timeout_ms": max(timeout_ms, 60000),
             "stand_in": True, "second_solver": False}
        if "force_inline" in b:
            u["force_inline"] = b["force_inline"]
        units.append(u)
    for s in P.get("static", []):
        units.append({"kind": "static", "qual": s})
    if not units:
        print("no units for", prop)
        return 3
    psize = min(jobs, max(1, len(units)))
    for u in units:
        u.setdefault("nproc", max(1, jobs // psize))
    with mp.Pool(psize, maxtasksperchild=1) as pool:
        results = pool.map(_work, units, chunksize=1)

    known = load_known()
    baseline = load_baseline().get(prop, [])
    base_hashes = load_baseline().get("_cone_hashes", {}).get(prop, {})
    cone = {}
    for r in results:
        if r["unit"]["kind"] in ("inv", "unroll") and r.get("cone_hash"):
            cone[(r["unit"]["kind"], r["unit"]["qual"])] = r["cone_hash"]

    def same_text_as_baseline(o):
        """the verification conditions of this unit were generated from exactly the source text they were generated from when
        the baseline was written (function + every inlined callee): a result other than `unsat` is then the solver's budget, not
        the code"""
        k = (o["unit_kind"], o["qual"])
        return k in cone and base_hashes.get("%s:%s" % k) == cone[k]

    # ---- budget flukes: an obligation of an UNCHANGED unit that was discharged in the baseline and is `unknown` now is retried
    # alone with a three times larger budget before anything is concluded from it
    retry = {}
    for r in results:
        if r["unit"]["kind"] not in ("inv", "unroll"):
            continue
        for o in r["obligations"]:
            if o["result"] not in ("unsat", "sat") and o["name"] in baseline and base_hashes.get(
                    "%s:%s" % (r["unit"]["kind"], r["unit"]["qual"])) == r.get("cone_hash"):
                retry.setdefault((r["unit"]["kind"], r["unit"]["qual"]), []).append(o["name"])
    if retry:
        runits = []
        for (k, q), names in retry.items():
            base = [u for u in units if u["kind"] == k and u["qual"] == q][0]
            u = dict(base)
            u.update({"only": [n.split("/", 1)[1] for n in names], "exact_only": True, "timeout_ms": 3 * base["timeout_ms"], "sample": False,
                      "nproc": max(1, jobs // max(1, len(retry)))})
            runits.append(u)
        with mp.Pool(min(jobs, len(runits)), maxtasksperchild=1) as pool:
            rres = pool.map(_work, runits, chunksize=1)
        fixed = {}
        for rr in rres:
            for o in rr["obligations"]:
                if o["result"] == "unsat":
                    fixed[o["name"]] = o
        for r in results:
            for i, o in enumerate(r["obligations"]):
                if o["name"] in fixed and o["result"] != "unsat":
                    fixed[o["name"]]["retried"] = True
                    r["obligations"][i] = fixed[o["name"]]
        print("RETRIED %d obligation(s) of unchanged functions with a larger budget: %d discharged" % (
            sum(len(v) for v in retry.values()), len(fixed)))
    crashes, unsupported = [], []
    all_obs, bounded_obs = [], []
    for r in results:
        if r.get("error"):
            crashes.append((r["unit"], r["error"]))
        if r.get("unsupported"):
            unsupported.append((r["unit"]["qual"], r["unsupported"]))
        for o in r["obligations"]:
            o["unit_kind"] = r["unit"]["kind"]
            o["qual"] = r["unit"]["qual"]
            (bounded_obs if r["unit"]["kind"] == "unroll" else all_obs).append(o)
    vacuous = []
    n_probes = 0
    for r in results:
        for pr in r.get("probes", []):
            n_probes += 1
            if pr["result"] == "unsat":
                vacuous.append(pr["name"])
    if vacuous:
        for v in vacuous:
            print("CHECKER-CRASH property=%s VACUOUS contract: assumptions contradictory at %s" % (prop, v))
        return 3
    if crashes:
        for u, e in crashes:
            print("CHECKER-CRASH unit=%s\n%s" % (u, e[-700:]))
        return 3

    # ---- vacuity guards (section 3.5)
    if not all_obs and not bounded_obs:
        print("CHECKER-CRASH property=%s generated zero obligations" % prop)
        return 3
    names_now = sorted(o["name"] for o in all_obs + bounded_obs)
    violations, known_hits, undecided = [], [], []
    replay_dir = os.path.join(ROOT, "replays", prop)

    def fallback_unroll(qual, only=None):
        bound = P.get("fallback_bound", {}).get(qual, 2 if tier == "quick" else 3)
        bound = int(os.environ.get("VERIF_FALLBACK_BOUND", bound))
        u = {"kind": "unroll", "qual": qual, "bound": bound, "nrefs": P.get("fallback_nrefs", 4),
             "nstrs": P.get("fallback_nstrs", 8), "timeout_ms": 45000, "second_solver": False}
        if qual in ("BaseProject.simulate", "BaseProject.backward_simulate"):
            # unrolling the main loop of a whole run is out of reach; a failed obligation there is reported without a model
            return {"unit": u, "obligations": [], "error": None, "unsupported": "not unrolled: too large for a counter-model search"}
        # always in a fresh process: one z3 context per engine; the search for a counter-model is capped in wall-clock time.
        # The finite universe is widened step by step: a counter-example may need more objects than the first universe has
        # (two workers + two facilities + the task = 5), while larger universes are slower and more often `unknown`.
        deadline = time.time() + int(os.environ.get("VERIF_FALLBACK_S", "420"))
        best = None
        for nrefs in (u["nrefs"], u["nrefs"] + 1, u["nrefs"] + 2):
            left = deadline - time.time()
            if left < 20:
                break
            uu = dict(u, nrefs=nrefs)
            fpool = mp.Pool(1, maxtasksperchild=1)
            try:
                r = fpool.apply_async(_work, (uu,)).get(timeout=left)
            except mp.TimeoutError:
                r = None
            finally:
                fpool.terminate()
            if r is None:
                break
            if best is None or not best.get("obligations"):
                best = r
            if any(x["result"] == "sat" and x.get("model") for x in r.get("obligations", [])):
                return r
            if r.get("unsupported") or r.get("error"):
                break
        return best or {"unit": u, "obligations": [], "error": None, "unsupported": "counter-model search stopped after its time cap"}

    baseline_norm = {_norm(b) for b in baseline}
    fallback_cache = {}
    proof_lost = []
    for q, why in unsupported:
        if q not in P.get("inv", []):
            continue
        # a function under proof left the supported subset (e.g. after a refactoring): the unbounded proof is lost;
        # the bounded stand-in (same contract, loops unrolled) still decides whether the contract is violated
        fb = fallback_unroll(q)
        fallback_cache[q] = fb
        proof_lost.append((q, why, fb.get("unsupported") or fb.get("error")))
        for x in fb.get("obligations", []):
            x["unit_kind"] = "unroll"
            x["qual"] = q
            bounded_obs.append(x)
    for o in all_obs + bounded_obs:
        if o["result"] == "unsat":
            continue
        kind = o["kind"].split("#")[0]
        name = o["name"]
        model = o.get("model")
        refuted = o["result"] == "sat" and (o["unit_kind"] in ("unroll", "static"))
        witness_rec = o if model is not None else None
        stored = [k for k in known if k.get("witness") and finding_matches(k, prop, name, None)]
        if o["unit_kind"] == "inv" and not stored:
            # (an obligation that matches a recorded finding with a stored failing input needs no search: that input is replayed below)
            # quantified obligation not discharged: look for a function-level counter-example by unrolling
            if o["qual"] not in fallback_cache:
                fallback_cache[o["qual"]] = fallback_unroll(o["qual"])
            fb = fallback_cache[o["qual"]]
            cands = [x for x in fb.get("obligations", []) if x["result"] == "sat" and x.get("model")]
            # prefer the counter-example of the same clause
            label = name.split(":", 1)[1] if ":" in name else name
            same = [x for x in cands if x["name"].split(":", 1)[-1] == label or label.split("@")[0] in x["name"]]
            pick = (same or cands)
            if pick:
                witness_rec = pick[0]
                model = witness_rec["model"]
                refuted = True
        replay_path, rres = None, None
        if model is not None and witness_rec is not None:
            wk = witness_rec["kind"].split("#")[0]
            replay_path, rres = replay_on_real_code(prop, witness_rec, model, reg, wk, replay_dir)
        reproduced = bool(rres and rres.get("reproduced"))
        hit = [k for k in known if finding_matches(k, prop, name, model)]
        if hit:
            if not reproduced and hit[0].get("witness"):
                # the recorded failing input of this finding (a pre-state in the replay format) is run on the real code again
                try:
                    wmodel = json.load(open(os.path.join(ROOT, hit[0]["witness"])))
                    wrec = {"name": name, "clause": o.get("clause")}
                    replay_path, rres = replay_on_real_code(prop, wrec, wmodel, reg, "post", replay_dir)
                    reproduced = bool(rres and rres.get("reproduced"))
                except Exception as ex:
                    print("NOTE stored witness %s could not be replayed: %s" % (hit[0]["witness"], ex))
            if reproduced or not hit[0].get("witness"):
                known_hits.append((hit[0], name, reproduced, replay_path))
                continue
            # a recorded finding whose stored input no longer fails on the real code suppresses nothing
        # a clause keeps its identity when an edit changes the number of exits or branches of the function: `post:x[r1]`,
        # `post:x[then].0` and `post:x` are the same contract clause
        in_baseline = name in baseline or _norm(name) in baseline_norm
        if not refuted and o["unit_kind"] in ("inv", "unroll") and same_text_as_baseline(o):
            # nothing this obligation was generated from has changed since it was last discharged, and no counter-example
            # exists: solver budget (already retried), never a violation
            undecided.append((name, o))
            continue
        if refuted and reproduced:
            violations.append((name, replay_path, True, o))
        elif kind in PROPERTY_KINDS or o["unit_kind"] == "static":
            if refuted or in_baseline or o["unit_kind"] == "static":
                violations.append((name, replay_path or write_noinput(replay_dir, prop, o), False, o))
            else:
                undecided.append((name, o))
        else:
            # auxiliary obligation (invariant) without any function-level counter-example
            if in_baseline:
                violations.append((name, replay_path or write_noinput(replay_dir, prop, o), False, o))
            else:
                undecided.append((name, o))

    # ---- evidence
    n_inv = len(all_obs)
    n_inv_ok = sum(1 for o in all_obs if o["result"] == "unsat")
    _known_names = {n for _, n, _, _ in known_hits}
    n_known_obs = sum(1 for o in all_obs if o["name"] in _known_names and o["result"] != "unsat")
    by_backend = {}
    for o in all_obs + bounded_obs:
        if o["result"] == "unsat":
            by_backend[o.get("backend") or "static"] = by_backend.get(o.get("backend") or "static", 0) + 1
    solver_time = round(sum(o.get("time", 0) or 0 for o in all_obs + bounded_obs), 2)
    trusted, inlined, by_contract, bounds, defaulted = set(), set(), set(), set(), set()
    funcs = []
    samples = []
    for r in results:
        trusted |= set(r.get("trusted", []))
        inlined |= set(r.get("inlined", []))
        by_contract |= set(r.get("called_by_contract", []))
        for b in r.get("unwind_bounds", []):
            bounds.add("%s line %s: unrolled %s times (unwinding assumption)" % tuple(b))
        for d in r.get("defaulted_params", []):
            defaulted.add("%s(%s=<default>)" % tuple(d))
        for bc in r.get("bounded_clauses_assumed", []):
            bounds.add("callee clause assumed in an unbounded proof but itself verified only by the bounded stand-in: " + bc)
        for bc in r.get("bounded_only_clauses", []):
            if r["unit"]["kind"] == "inv":
                bounds.add("clause not part of the unbounded proof (decided by the bounded stand-in only): " + bc)
        if r["unit"]["kind"] in ("inv", "unroll"):
            funcs.append({"function": r["unit"]["qual"], "mode": "INV (unbounded)" if r["unit"]["kind"] == "inv" else
                          "UNROLL bounded(%d)" % r["unit"].get("bound", 3), "span": r.get("span"), "ast_sha": r.get("hash"),
                          "obligations": len(r["obligations"]),
                          "discharged": sum(1 for o in r["obligations"] if o["result"] == "unsat")})
        samples += r.get("samples", [])
    import importlib
    assumptions = list(P.get("assumptions", []))
    from contracts import common_assumptions
    assumptions = common_assumptions.A + assumptions
    assumptions += ["trusted builtin axiom: " + t for t in sorted(trusted)]
    assumptions += ["real callee body inlined (verified text, no contract assumed): " + q for q in sorted(inlined)]
    assumptions += ["callee used through its contract: " + q + (" (contract verified by this framework under its own property check)"
                                                               if reg.get(q) else "") for q in sorted(by_contract)]
    assumptions += ["bounded stand-in: " + b for b in sorted(bounds)]
    assumptions += ["parameter fixed to its default in the proof: " + d for d in sorted(defaulted)]
    blocks = sorted(u["qual"] for u in units if "@" in u.get("qual", ""))
    if blocks:
        assumptions.append("block units %s: a statement list cut out of the real method on every run (pyvc/source.py BLOCKS; free variables checked "
                           "against the declared parameters). The extraction drops the rest of the host method: each block contract is about ONE "
                           "execution of the block from any state satisfying its precondition; that the precondition holds at every iteration of "
                           "the enclosing loop of __allocate (the loop invariant connecting the blocks) is NOT proved" % ", ".join(blocks))
    for q, why in unsupported:
        assumptions.append("UNSUPPORTED (not verified): %s — %s" % (q, why))
    ev = {
        "property_id": prop, "tier": tier, "seed": seed, "level": "proof",
        "coverage": {
            # the proof claim rests on every generated obligation EXCEPT those that match a recorded finding (a genuine defect of
            # the repository, printed as KNOWN-FINDING): those are counted separately, never as discharged
            "obligations": n_inv - n_known_obs,
            "discharged": n_inv_ok,
            "obligations_generated": n_inv,
            "obligations_matching_recorded_findings": n_known_obs,
            "checker_cmd": "python3-vt check.py %s --tier %s" % (prop, tier),
            "trusted_base": ["pyvc VC generator (/verif/pyvc)", "z3 %s (python API)" % _z3v(), "cvc5 1.0.3 (second opinion on unknowns)",
                             "contracts/schema.py type schema", "A1-A9 (DESIGN.md 2.2)"] + sorted(trusted),
            "functions_under_contract": funcs,
            "by_backend": by_backend,
            "solver_time_s": solver_time,
            "bounded": {"obligations": len(bounded_obs), "discharged": sum(1 for o in bounded_obs if o["result"] == "unsat"),
                        "note": "UNROLL-mode obligations: bounded stand-ins, never counted in obligations/discharged above"},
            "undischarged": [n for n, _ in undecided] + [v[0] for v in violations],
            "known_findings_hit": [{"id": k.get("id"), "obligation": n, "replayed_on_real_code": rp} for k, n, rp, _ in known_hits],
            "unsupported_functions": [q for q, _ in unsupported],
            "vacuity_probes": {"count": n_probes, "provable_false": 0,
                               "note": "`False` was asserted at every function exit and inside every loop body; none was provable"},
            "dropped_by_extraction": ["docstrings", "type annotations", "presentation methods (print_*/plot_*/create_*plotly/draw_*/networkx)",
                                      "seed plumbing / np.random.seed", "warnings.warn"],
            "samples": samples[:4] or [{"name": names_now[0]}],
            "repo_head": repo_head(), "source_digest": tree_digest(src),
            "explanation": P.get("explanation", ""),
        },
        "assumptions": assumptions,
        "wall_s": round(time.time() - t_start, 2),
        "violations": len(violations),
    }
    os.makedirs(os.path.join(ROOT, "evidence"), exist_ok=True)
    json.dump(ev, open(os.path.join(ROOT, "evidence", prop + ".json"), "w"), indent=1)

    if write_baseline:
        bl = load_baseline()
        bl[prop] = sorted(o["name"] for o in all_obs + bounded_obs if o["result"] == "unsat")
        bl.setdefault("_cone_hashes", {})[prop] = {"%s:%s" % k: v for k, v in sorted(cone.items())}
        json.dump(bl, open(os.path.join(ROOT, "baseline_obligations.json"), "w"), indent=0, sort_keys=True)

    print("property %s tier %s: %d obligations (unbounded) %d discharged; %d bounded obligations; %.1fs" % (
        prop, tier, n_inv, n_inv_ok, len(bounded_obs), time.time() - t_start))
    for q, why in unsupported:
        print("UNSUPPORTED function=%s %s" % (q, why))
    for q, why, fberr in proof_lost:
        print("PROOF-LOST property=%s function=%s (outside the verified subset: %s); bounded stand-in %s" % (
            prop, q, why, "also failed: %s" % fberr if fberr else "ran instead"))
    for k, n, rp, path in known_hits:
        print("KNOWN-FINDING: property=%s %s [%s] obligation=%s%s" % (prop, k.get("what", ""), k.get("id", ""), n,
                                                                      " (replayed on the real code)" if rp else ""))
    for n, o in undecided:
        print("UNDECIDED property=%s obligation=%s reason=%s" % (prop, n, o.get("reason") or o["result"]))
    # missing baseline obligations (a contract silently stopped generating an obligation)
    missing = [b for b in baseline if b not in names_now]
    for b in missing:
        print("LOST-OBLIGATION property=%s %s (was discharged on the baseline tree, not generated now)" % (prop, b))
    if violations:
        for name, path, replayed, o in violations:
            tail = "" if replayed else " no-failing-input-found"
            print("VIOLATION property=%s replay=%s obligation=%s%s" % (prop, path, name, tail))
        return 1
    if unsupported and any(u[0] in [x for x in P.get("inv", [])] for u in unsupported):
        # a function that was under proof became unsupported: proof lost, not a violation
        pass
    return 0


def write_noinput(replay_dir, prop, o):
    os.makedirs(replay_dir, exist_ok=True)
    fn = os.path.join(replay_dir, o["name"].replace("/", "__").replace(":", "_").replace("#", "_") + ".noinput.json")
    json.dump({"property": prop, "obligation": o["name"], "solver_result": o["result"], "reason": o.get("reason"),
               "backend": o.get("backend"), "cvc5": o.get("cvc5"), "clause": o.get("clause"), "line": o.get("line"),
               "details": o.get("details"),
               "note": "no concrete failing input was found; this obligation was discharged on the baseline tree and is not now"},
              open(fn, "w"), indent=1)
    return fn


def _z3v():
    try:
        import z3
        return z3.get_version_string()
    except Exception:
        return "?"


if __name__ == "__main__":
    main()
