"""Units of work executed in worker processes: one function verified in INV mode, or in UNROLL mode."""
import os
import sys
import time
import traceback

ROOT = os.path.dirname(os.path.dirname(os.path.abspath(__file__)))
if ROOT not in sys.path:
    sys.path.insert(0, ROOT)


def _mk_engine(mode="INV", bound=3, nrefs=4, nstrs=4, force_inline=()):
    from pyvc.source import Source
    from pyvc.contracts import load_registry
    from pyvc.engine import Engine
    from contracts.schema import SCHEMA
    src = Source()
    reg = load_registry()
    return Engine(src, SCHEMA, reg, mode=mode, bound=bound, nrefs=nrefs, nstrs=nstrs, force_inline=force_inline), src, reg


def run_unit(unit):
    """unit: dict(kind='inv'|'unroll', qual=..., bound=, nrefs=, nstrs=, timeout_ms=, want_model=bool)
    returns dict with per-obligation results; never raises."""
    t0 = time.time()
    out = {"unit": unit, "obligations": [], "error": None, "unsupported": None}
    try:
        import z3
        from pyvc.core import Unsupported
        mode = "INV" if unit["kind"] == "inv" else "UNROLL"
        e, src, reg = _mk_engine(mode=mode, bound=unit.get("bound", 3), nrefs=unit.get("nrefs", 4),
                                 nstrs=unit.get("nstrs", 4), force_inline=unit.get("force_inline", ()))
        qual = unit["qual"]
        if unit.get("layout") and mode == "UNROLL":
            e.set_universe_layout([tuple(x) for x in unit["layout"]])
        try:
            out["span"] = src.func_span(qual)
            out["hash"] = src.func_hash(qual)
        except KeyError as ex:
            # the function (or the block) under contract is no longer in the source: the proof is lost, not the checker broken
            out["unsupported"] = "function under contract not found in the current source: %s" % (ex,)
            out["gen_s"] = time.time() - t0
            return out
        try:
            obs = e.verify(qual)
        except Unsupported as ex:
            out["unsupported"] = str(ex)
            out["gen_s"] = time.time() - t0
            return out
        out["gen_s"] = time.time() - t0
        out["trusted"] = sorted(e.trusted)
        out["inlined"] = sorted(e.inlined)
        # digest of everything of /repo that this unit's verification conditions were generated from
        import hashlib as _h
        parts = [out["hash"]]
        for q in out["inlined"]:
            try:
                parts.append(q + "=" + src.func_hash(q))
            except Exception:
                parts.append(q + "=?")
        out["cone_hash"] = _h.sha256("|".join(parts).encode()).hexdigest()[:16]
        out["called_by_contract"] = sorted(e.called_by_contract)
        out["unwind_bounds"] = sorted(e.unwind_bounds)
        out["defaulted_params"] = e.defaulted_params
        out["identity_on_values"] = [x for x in e.identity_on_values if x]
        out["n_assumptions"] = len(e.assumptions)
        out["bounded_only_clauses"] = list(e.bounded_only_clauses)
        out["bounded_clauses_assumed"] = sorted(e.bounded_clauses_assumed)
        only = unit.get("only")
        tmo = unit.get("timeout_ms", 20000)
        ext = None
        if mode == "UNROLL":
            from pyvc.model2py import extract as _ex
            ext = lambda eng, m, _q=qual: _ex(eng, m, _q)
        todo = [ob for ob in obs if not (only and not any(s in ob.name for s in only))]
        nproc = unit.get("nproc", 4)
        # 1. batches of consecutive safety obligations (cheap, numerous in unrolled code)
        from pyvc.core import Obligation
        singles, batches, cur = [], [], []
        for ob in todo:
            if ob.kind == "safe" and unit.get("batch_safety", True):
                cur.append(ob)
                if len(cur) >= 25:
                    batches.append(cur)
                    cur = []
            else:
                if cur:
                    batches.append(cur)
                    cur = []
                singles.append(ob)
        if cur:
            batches.append(cur)
        batch_obs = []
        for bt in batches:
            if len(bt) == 1:
                singles.append(bt[0])
                continue
            bo = Obligation("batch", "batch", bt[-1].n_assump, [], None)
            bo.batch = bt
            batch_obs.append(bo)
        e.solve_many([(bo, tmo, False, None) for bo in batch_obs], nproc=nproc)
        for bo in batch_obs:
            if bo.result == "unsat":
                for o in bo.batch:
                    o.result, o.time, o.backend, o.reason = "unsat", round(bo.time / len(bo.batch), 4), bo.backend, None
            else:
                singles += bo.batch
        probes = [ob for ob in singles if ob.kind == "probe"]
        normal = [ob for ob in singles if ob.kind != "probe"]
        e.solve_many([(ob, 4000, False, None) for ob in probes] +
                     [(ob, tmo, mode == "UNROLL", ext) for ob in normal], nproc=nproc)
        # robustness: an `unknown` is retried with other seeds and a longer budget before it counts as undischarged
        if mode == "INV":
            for attempt, seed in enumerate((7, 23)):
                again = [ob for ob in normal if ob.result == "unknown"]
                if not again:
                    break
                for ob in again:
                    ob.seed = seed
                    ob.retries = attempt + 1
                e.solve_many([(ob, tmo * (2 + attempt), False, None) for ob in again], nproc=max(1, nproc // 2))
        for ob in probes:
            out.setdefault("probes", []).append({"name": ob.name, "result": ob.result, "time": round(ob.time, 3)})
        for ob in todo:
            if ob.kind == "probe":
                continue
            r = ob.result
            rec = {"name": ob.name, "kind": ob.kind, "result": r, "time": round(ob.time, 3),
                   "backend": ob.backend, "reason": ob.reason, "line": ob.line,
                   "clause": ob.info.get("clause"), "callee": ob.info.get("callee"),
                   "retries": getattr(ob, "retries", 0)}
            if r == "unknown" and unit.get("second_solver", True):
                r2, t2 = second_opinion(e, ob, tmo)
                rec["cvc5"] = r2
                rec["cvc5_time"] = round(t2, 3)
                if r2 == "unsat":
                    rec["result"] = "unsat"
                    rec["backend"] = "cvc5"
            if r == "sat" and mode == "UNROLL":
                if ob.model is not None:
                    rec["model"] = ob.model
                if getattr(ob, "model_error", None):
                    rec["model_error"] = ob.model_error
            if unit.get("sample") and len(out.get("samples", [])) < 2 and ob.kind in ("post", "inv-step#0"):
                out.setdefault("samples", []).append({"name": ob.name, "smt2_head": e.to_smt2(ob)[-600:]})
            out["obligations"].append(rec)
    except Exception as ex:
        out["error"] = "%s: %s\n%s" % (type(ex).__name__, ex, traceback.format_exc()[-1500:])
    out["wall_s"] = time.time() - t0
    return out


def second_opinion(e, ob, timeout_ms):
    """cvc5 on the SMT-LIB dump of an obligation that z3 left unknown"""
    import subprocess
    import tempfile
    t0 = time.time()
    try:
        txt = "(set-logic ALL)\n" + e.to_smt2(ob)
        with tempfile.NamedTemporaryFile("w", suffix=".smt2", delete=False, dir=os.environ.get("PYVC_TMP", "/tmp")) as f:
            f.write(txt)
            path = f.name
        try:
            p = subprocess.run(["/usr/bin/cvc5", "--tlimit=%d" % timeout_ms, "-q", path], capture_output=True,
                               text=True, timeout=timeout_ms / 1000 + 5)
            ans = p.stdout.strip().split("\n")[0] if p.stdout.strip() else "unknown"
        finally:
            os.unlink(path)
        if ans not in ("sat", "unsat"):
            ans = "unknown"
        return ans, time.time() - t0
    except Exception:
        return "unknown", time.time() - t0
