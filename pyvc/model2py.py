"""Turn a z3 model of an UNROLL-mode obligation into a JSON description of a concrete pre-state
(objects + attribute values + call arguments) that pyvc/replay_real.py can rebuild with the real classes."""
import z3


def z2py(e, ty, zv, model, found):
    k = ty.kind
    v = model.eval(zv, model_completion=True)
    if k in ("Int", "Enum"):
        return v.as_long()
    if k in ("Real", "Delta"):
        if z3.is_rational_value(v):
            f = v.as_fraction()
            return {"num": f.numerator, "den": f.denominator}
        return {"num": 0, "den": 1, "note": "non-rational model value " + str(v)}
    if k == "Bool":
        return z3.is_true(v)
    if k == "Str":
        name = str(v)
        for text, c in e.S._lits.items():
            if c.eq(v):
                return text
        return "str_" + name
    if k == "Ref":
        name = str(v)
        if name == "null":
            return None
        if ty.cls is not None:
            found.append((name, ty.cls))
        return {"ref": name}
    if k == "None":
        return None
    if k == "List":
        s = e.S.sort(ty)
        n = model.eval(s.len(zv), model_completion=True).as_long()
        n = max(0, min(n, e.bound + 2))
        return [z2py(e, ty.elem, z3.Select(s.el(zv), z3.IntVal(i)), model, found) for i in range(n)]
    if k == "Tuple":
        s = e.S.sort(ty)
        return {"tuple": [z2py(e, t, s.accessor(0, i)(zv), model, found) for i, t in enumerate(ty.elems)]}
    if k == "Opt":
        s = e.S.sort(ty)
        if z3.is_true(model.eval(s.is_none(zv), model_completion=True)):
            return None
        return z2py(e, ty.t, s.val(zv), model, found)
    if k == "Dict":
        s = e.S.sort(ty)
        out = {}
        consts = e.S.str_consts or list(e.S._lits.values())
        for c in consts:
            if z3.is_true(model.eval(z3.Select(s.dom(zv), c), model_completion=True)):
                out[z2py(e, ty.k, c, model, found)] = z2py(e, ty.v, z3.Select(s.val(zv), c), model, found)
        return {"dict": out}
    if k == "Set":
        out = []
        if ty.elem.kind == "Ref" and e.S.ref_consts is not None:
            for c in e.S.ref_consts:
                if z3.is_true(model.eval(z3.Select(zv, c), model_completion=True)):
                    out.append(z2py(e, ty.elem, c, model, found))
        return {"set": out}
    return {"unsupported": repr(ty)}


def extract(e, model, qual):
    found = []
    params = {}
    for name, v in e.fn_old_env.items():
        if v is None or v.z is None or v.ty.kind in ("Lambda", "Class", "Builtin", "BoundMethod", "Func", "Module",
                                                       "Iter", "Kwargs", "EmptyList", "Poison", "LocalFunc"):
            if v is not None and v.ty.kind == "EmptyList":
                params[name] = []
            continue
        params[name] = z2py(e, v.ty, v.z, model, found)
    keys = {}
    for gname, const in e.ghost.items():
        if gname.startswith("H0_") and z3.is_expr(const):
            for (c, attrs) in e.schema.items():
                for a in attrs:
                    if gname == "H0_%s_%s" % (c, a):
                        keys[(c, a)] = const
    objects = {}
    seen = set()
    while found:
        ref, cls = found.pop()
        if (ref, cls) in seen:
            continue
        seen.add((ref, cls))
        obj = objects.setdefault(ref, {"cls": cls, "attrs": {}})
        # prefer the most specific class seen
        if e.src.is_subclass(cls, obj["cls"]):
            obj["cls"] = cls
        rc = [c for c in e.S.ref_consts if str(c) == ref][0]
        for (c, a), arr in keys.items():
            if e.src.is_subclass(cls, c) and a not in obj["attrs"]:
                ty = e.schema[c][a]
                obj["attrs"][a] = z2py(e, ty, z3.Select(arr, rc), model, found)
    return {"qual": qual, "params": params, "objects": objects, "bound": e.bound}
