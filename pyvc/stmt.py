"""Statement execution: assignment, branching with state merging, loops (INV: cut at invariants;
UNROLL: bounded unrolling with unwinding assumption), return/break/continue/raise, try/finally."""
import ast
import z3

from .vtypes import (TInt, TReal, TBool, TStr, TNone, TRef, TEnum, TList, TSet, TTuple, TDict, TOpt)
from .core import (Val, Unsupported, TPoison, T_EMPTY, SPECIAL_KINDS, zbool, zand, zor, znot, is_true, is_false,
                   State, TSpecial)

T_LOCALFUNC = TSpecial("LocalFunc")


class StmtMixin:
    def exec_block(self, stmts, st):
        for s in stmts:
            if is_true(st.ret) or is_true(st.brk) or is_true(st.cont):
                if not self.dry:
                    break
            self.exec_stmt(s, st)

    def exec_stmt(self, node, st):
        m = getattr(self, "ex_" + type(node).__name__, None)
        if m is None:
            raise Unsupported("statement %s" % type(node).__name__, node)
        m(node, st)

    # ------------------------------------------------------------------ simple statements
    def ex_Pass(self, node, st):
        pass

    def ex_ImportFrom(self, node, st):
        pass        # names are resolved against the model sources anyway

    def ex_Import(self, node, st):
        pass

    def ex_Expr(self, node, st):
        if isinstance(node.value, ast.Constant):
            return      # docstring
        self.ev(node.value, st)

    def ex_Assign(self, node, st):
        v = self.ev(node.value, st)
        for t in node.targets:
            self.assign(t, v, st, node)

    def ex_AnnAssign(self, node, st):
        if node.value is not None:
            self.assign(node.target, self.ev(node.value, st), st, node)

    def assign(self, target, v, st, node=None):
        if isinstance(target, ast.Name):
            if v.ty.kind == "Iter":
                raise Unsupported("binding a lazy iterator to a name", node)
            self.assign_name(st, target.id, v)
        elif isinstance(target, ast.Attribute):
            obj = self.ev(target.value, st)
            self.write_field(st, obj, target.attr, v, node)
            if obj.ty.kind == "Ref" and obj.ty.cls:
                key = self.field_key(obj.ty.cls, target.attr, node)
                if v.ty.kind == "EmptyList" or (v.ty.kind == "List" and v.alias is None):
                    pass
                self.store_sites.append((self.cur_qual, key, getattr(node, "lineno", None),
                                         "alias" if v.alias is not None else ("param" if v.py == "param" else "fresh")))
        elif isinstance(target, (ast.Tuple, ast.List)):
            if v.ty.kind != "Tuple" or len(v.ty.elems) != len(target.elts):
                raise Unsupported("tuple unpacking of %r" % (v.ty,), node)
            for i, t in enumerate(target.elts):
                self.assign(t, self.tuple_get(v, i), st, node)
        elif isinstance(target, ast.Subscript):
            base = self.ev(target.value, st)
            if base.ty.kind != "List":
                raise Unsupported("subscript store into %r" % (base.ty,), node)
            i = self.coerce(self.ev(target.slice, st), TInt, node).z
            n = self.list_len(base)
            self.oblige("safe", "index-store", z3.And(i >= 0, i < n), st, node)
            new = self.mk_list(base.ty, n, z3.Store(self.list_arr(base), i, self.coerce(v, base.ty.elem, node).z))
            self.store_back(target.value, base, new, st, node)
        else:
            raise Unsupported("assignment target", node)

    def ex_AugAssign(self, node, st):
        if isinstance(node.target, ast.Name):
            cur = self.ev(ast.Name(id=node.target.id, ctx=ast.Load(), lineno=node.lineno), st)
        elif isinstance(node.target, ast.Attribute):
            cur = self.ev(ast.Attribute(value=node.target.value, attr=node.target.attr, ctx=ast.Load(),
                                        lineno=node.lineno), st)
        else:
            raise Unsupported("augmented assignment target", node)
        rhs = self.ev(node.value, st)
        self.assign(node.target, self.binop(node.op, cur, rhs, st, node), st, node)

    def ex_Delete(self, node, st):
        targets = []
        for t in node.targets:
            targets += list(t.elts) if isinstance(t, (ast.Tuple, ast.List)) else [t]
        for t in targets:
            if isinstance(t, ast.Attribute):
                obj = self.ev(t.value, st)
                self.deleted_attrs.append((obj.ty.cls, t.attr))
            else:
                raise Unsupported("del of non-attribute", node)

    def ex_Return(self, node, st):
        v = self.ev(node.value, st) if node.value is not None else Val(TNone, self.S.none_val)
        if v.ty.kind == "Iter":
            raise Unsupported("returning a lazy iterator", node)
        live = self.live(st)
        if self.call_depth == 0 and not self.dry and self.collect_returns is not None:
            # remember the state at this return statement: postconditions are proved here, on the un-merged state
            site = st.copy()
            site.written = set(st.written)
            self.collect_returns.append((site, v, getattr(node, "lineno", 0)))
        if st.ret_val is None or is_true(live):
            st.ret_val = v
        else:
            r = self.ite_val(zbool(live), v, st.ret_val)
            st.ret_val = r
        st.ret = zor(st.ret, live)

    def ex_Break(self, node, st):
        st.brk = zor(st.brk, self.live(st))

    def ex_Continue(self, node, st):
        st.cont = zor(st.cont, self.live(st))

    def ex_Raise(self, node, st):
        self.oblige("safe", "raise", False, st, node)
        st.ret = zor(st.ret, self.live(st))

    def ex_Assert(self, node, st):
        self.oblige("safe", "assert", self.truth(self.ev(node.test, st)), st, node)

    def ex_FunctionDef(self, node, st):
        st.env[node.name] = Val(T_LOCALFUNC, None, py=(node, dict(st.env), self.cur_cls))

    def call_local_func(self, fn, args, kwargs, st, node=None):
        fnode, env, cls = fn.py
        params = [a.arg for a in fnode.args.args]
        sub = st.copy()
        sub.env = dict(env)
        for p, a in zip(params, args):
            sub.env[p] = a
        sub.ret, sub.ret_val, sub.brk, sub.cont = False, None, False, False
        self.call_depth += 1
        try:
            self.exec_block(fnode.body, sub)
        finally:
            self.call_depth -= 1
        st.heap = sub.heap
        return sub.ret_val if sub.ret_val is not None else Val(TNone, self.S.none_val)

    def ex_Try(self, node, st):
        if node.handlers or node.orelse:
            raise Unsupported("try/except", node)
        self.exec_block(node.body, st)
        # finally runs on every exit, including return
        saved = (st.ret, st.ret_val)
        st.ret = False
        self.exec_block(node.finalbody, st)
        st.ret = zor(saved[0], st.ret)
        if st.ret_val is None:
            st.ret_val = saved[1]
        self.trusted.add("try/finally: the exceptional edge is not executed symbolically (see C17 static frame argument)")

    def ex_With(self, node, st):
        raise Unsupported("with statement (file I/O is handled by the static JSON analysis)", node)

    # ------------------------------------------------------------------ branching
    def ex_If(self, node, st):
        c = self.truth(self.ev(node.test, st), node)
        if not self.dry:
            cs = z3.simplify(c)
            if is_true(cs):
                self.exec_block(node.body, st)
                return
            if is_false(cs):
                self.exec_block(node.orelse, st)
                return
        s1 = st.copy()
        s1.path.append(c)
        self.exec_block(node.body, s1)
        s2 = st.copy()
        s2.path.append(z3.Not(c))
        self.exec_block(node.orelse, s2)
        self.merge(c, s1, s2, st)

    # ------------------------------------------------------------------ loops
    def number_loops(self, fn):
        ids = {}
        n = 0
        for x in ast.walk(fn):      # breadth-first is unstable under nesting edits: use source order
            pass
        loops = [x for x in ast.walk(fn) if isinstance(x, (ast.For, ast.While))]
        loops.sort(key=lambda x: (x.lineno, x.col_offset))
        for i, x in enumerate(loops):
            ids[id(x)] = i
        return ids

    def loop_invariants(self, node):
        c = self.contracts.get(self.cur_qual)
        lid = self.loop_ids.get(id(node))
        if c is None or lid not in c.loops:
            return lid, None
        return lid, c.loops[lid]

    def ex_For(self, node, st):
        if node.orelse:
            raise Unsupported("for/else", node)
        it = self.ev(node.iter, st)
        if self.dry:
            return self.dry_loop(node, st, it)
        if self.mode == "UNROLL":
            return self.unroll_for(node, st, it)
        lid, spec = self.loop_invariants(node)
        if spec is None:
            raise Unsupported("loop #%s of %s has no invariant" % (lid, self.cur_qual), node)
        if it.ty.kind == "Set":
            return self.inv_set_loop(node, st, it, lid, spec)
        if it.ty.kind == "Iter" and it.py[0] in ("filter", "genif"):
            it = self.realize(it, st, node)
        if it.ty.kind == "Set":
            return self.inv_set_loop(node, st, it, lid, spec)
        n, getter, _ = self.as_view(it, st, node)
        seq = it if it.ty.kind == "List" else None
        self.inv_loop(node, st, lid, spec, kind="for", n=n, getter=getter, seq=seq)

    def unreachable_loops(self):
        c = self.contracts.get(self.cur_qual)
        return set(getattr(c, "unreachable_loops", ()) or ()) if c is not None and len(self.inline_stack) <= 1 else set()

    def ex_While(self, node, st):
        if node.orelse:
            raise Unsupported("while/else", node)
        if self.dry:
            return self.dry_loop(node, st, None)
        if self.mode == "UNROLL":
            return self.unroll_while(node, st)
        lid, spec = self.loop_invariants(node)
        if spec is None:
            raise Unsupported("loop #%s of %s has no invariant" % (lid, self.cur_qual), node)
        self.inv_loop(node, st, lid, spec, kind="while")

    def dry_loop(self, node, st, it):
        """probe execution: run the body once on an arbitrary element, only to collect writes and types"""
        s = st.copy()
        if isinstance(node, ast.For):
            elem = self.arbitrary_elem(it, st, node)
            self.bind_target(node.target, elem, s, node)
        else:
            self.ev(node.test, s)
        self.exec_block(node.body, s)
        s.brk = s.cont = False
        # merge conservatively: anything assigned in the body may or may not have happened
        c = self.fresh(z3.BoolSort(), "dry")
        self.merge(c, s, st.copy(), st)

    def arbitrary_elem(self, it, st, node):
        if it.ty.kind == "Set":
            return self.fresh_val(it.ty.elem, "any")
        n, g, _ = self.as_view(it, st, node)
        return g(self.fresh(z3.IntSort(), "anyidx"))

    def probe_body(self, node, st, bind):
        """returns (assigned variable -> type, written heap keys) of one loop iteration"""
        probe = st.copy()
        probe.written = set()
        self.dry += 1
        try:
            bind(probe)
            before = dict(probe.env)
            self.exec_block(node.body, probe)
            if isinstance(node, ast.While):
                self.ev(node.test, probe)
        finally:
            self.dry -= 1
        assigned = {}
        for name, v in probe.env.items():
            if before.get(name) is not v or name not in st.env:
                if v is not None and v.ty.kind in SPECIAL_KINDS:
                    continue
                assigned[name] = v
        # loop targets are assigned too
        if isinstance(node, ast.For):
            for t in ast.walk(node.target):
                if isinstance(t, ast.Name) and t.id in probe.env:
                    assigned.setdefault(t.id, before.get(t.id))
        st.written |= probe.written
        return assigned, set(probe.written)

    def prepare_loop_vars(self, st, assigned):
        """before the initiation check: give loop-carried variables that are still untyped empty lists their
        element type, and bind variables that are only defined inside the loop to arbitrary values"""
        for name, pv in assigned.items():
            cur = st.env.get(name)
            if pv is None or pv.ty.kind in SPECIAL_KINDS or pv.ty.kind in ("Poison", "None", "EmptyList"):
                continue
            if cur is None:
                st.env[name] = self.fresh_val(pv.ty, "undef_" + name)
            elif cur.ty.kind == "EmptyList" and pv.ty.kind == "List":
                st.env[name] = self.coerce(cur, pv.ty)

    def havoc(self, st, assigned, written, tag):
        h = st.copy()
        for name, pv in assigned.items():
            cur = st.env.get(name)
            ty = pv.ty if pv is not None else None
            if cur is not None and cur.ty.kind not in ("Poison",) and ty is not None:
                u = self.unify(cur.ty, ty)
                ty = u if u.kind != "Poison" else ty
            if ty is None or ty.kind in ("Poison", "EmptyList", "None") or ty.kind in SPECIAL_KINDS:
                if ty is not None and ty.kind == "EmptyList":
                    raise Unsupported("loop-carried list variable %s never gets an element type" % name)
                h.env[name] = Val(TPoison("loop-carried variable %s has no stable type" % name), None)
                continue
            h.env[name] = self.fresh_val(ty, "%s_%s" % (name, tag))
        for key in written:
            arr = self.heap_arr(st, key)
            h.heap[key] = self.fresh(arr.sort(), "H%s_%s_%s" % (tag, key[0], key[1]))
        return h

    def check_invs(self, kind, lid, spec, st, ghost, node, stage):
        """spec: list of (label, text).  stage in init/step -> obligations; 'assume' -> assumptions"""
        for label, text in spec:
            if label.startswith("step:"):
                # two-state step relation: proved for every iteration (state at the loop head vs. end of the body);
                # neither assumed at the head nor required initially
                if stage != "step":
                    continue
            env = dict(st.env)
            env.update(ghost)
            g = self.eval_spec(text, env, st, old_heap=self.fn_old_heap, old_env=self.fn_old_env)
            if stage == "assume":
                self.assume(g, st)
            else:
                self.oblige_split("inv-%s#%d" % (stage, lid), label, g, st, node, info={"clause": text})

    def inv_loop(self, node, st, lid, spec, kind, n=None, getter=None, seq=None):
        tag = "L%d" % lid
        is_for = kind == "for"

        def bind(s, idx=None):
            if is_for:
                k = idx if idx is not None else self.fresh(z3.IntSort(), "anyidx")
                self.bind_target(node.target, getter(k), s, node)
        assigned, written = self.probe_body(node, st, bind)
        ghost0 = {}
        if is_for:
            ghost0 = {"_i": Val(TInt, z3.IntVal(0)), "_n": Val(TInt, n)}
            if seq is not None:
                ghost0["_seq"] = seq
        self.prepare_loop_vars(st, assigned)
        self.loop_entry.append((dict(st.heap), dict(st.env)))
        try:
            # 1. initiation
            self.check_invs(kind, lid, spec, st, ghost0, node, "init")
            # 2. arbitrary iteration
            h = self.havoc(st, assigned, written, tag)
            ghost = {}
            if is_for:
                i = self.fresh(z3.IntSort(), "i_%s" % tag)
                self.assume(z3.And(i >= 0, i <= n), h)
                ghost = {"_i": Val(TInt, i), "_n": Val(TInt, n)}
                if seq is not None:
                    ghost["_seq"] = seq
            self.check_invs(kind, lid, spec, h, ghost, node, "assume")
            # 3. one step
            s = h.copy()
            if is_for:
                guard = i < n
            else:
                guard = self.truth(self.ev(node.test, h), node)
            s.path.append(guard)
            if is_for:
                self.bind_target(node.target, getter(i), s, node)
            self.exec_block(node.body, s)
            s.cont = False
            ghost2 = dict(ghost)
            if is_for:
                ghost2["_i"] = Val(TInt, i + 1)
            if lid not in self.unreachable_loops():
                self.probe("loop#%d-body-reachable" % lid, s)      # before the step obligations (they are assumed once stated)
            if is_for and seq is not None and isinstance(node.iter, (ast.Attribute, ast.Name)):
                # python iterates the LIVE list by index; the engine iterates the list as it was at loop entry.  The two agree
                # when an iteration that continues leaves the iterated list as it was: an obligation wherever the body may edit it
                try:
                    now = self.ev(node.iter, s)
                except Unsupported:
                    now = None
                if now is not None and now.ty.kind == "List" and now.z is not None and seq.z is not None and not now.z.eq(seq.z):
                    self.oblige("safe", "iterated-list-not-edited-by-a-continuing-iteration#%d" % lid,
                                zor(zor(s.brk, s.ret), now.z == seq.z), s, node)
            self.loop_head.append((dict(h.heap), dict(h.env)))
            try:
                self.check_invs(kind, lid, spec, s, ghost2, node, "step")
            finally:
                self.loop_head.pop()
            s.path.pop()
            # 4. continuation: exit (guard false) or break/return from the step
            abrupt = zor(s.brk, s.ret)
            if is_false(abrupt):
                # the only way out is the guard
                self.assume(z3.Not(guard), h)
                st.env, st.heap = h.env, h.heap
                st.ret, st.ret_val = h.ret, h.ret_val
            else:
                self.assume(z3.Or(z3.Not(guard), z3.And(guard, zbool(abrupt))), h)
                self.merge(guard, s, h, st)
            st.brk = False
            st.cont = False
        finally:
            self.loop_entry.pop()

    def inv_set_loop(self, node, st, it, lid, spec):
        tag = "L%d" % lid
        S = it.z
        ety = it.ty.elem
        es = self.S.sort(ety)

        def bind(s, x=None):
            self.bind_target(node.target, x if x is not None else self.fresh_val(ety, "any"), s, node)
        assigned, written = self.probe_body(node, st, bind)
        empty = z3.K(es, False)
        self.prepare_loop_vars(st, assigned)
        self.loop_entry.append((dict(st.heap), dict(st.env)))
        self.trusted.add("list(set)/iteration over a set: arbitrary order, each element exactly once (A6)")
        try:
            ghost0 = {"_visited": Val(TSet(ety), empty), "_set": it}
            self.check_invs("for", lid, spec, st, ghost0, node, "init")
            h = self.havoc(st, assigned, written, tag)
            vis = self.fresh(S.sort(), "visited_%s" % tag)
            q = self.qvar("x", es)
            self.assume(z3.ForAll([q], z3.Implies(z3.Select(vis, q), z3.Select(S, q))), h)
            ghost = {"_visited": Val(TSet(ety), vis), "_set": it}
            self.check_invs("for", lid, spec, h, ghost, node, "assume")
            x = self.fresh_val(ety, "x_%s" % tag)
            s = h.copy()
            guard = z3.And(z3.Select(S, x.z), z3.Not(z3.Select(vis, x.z)))
            s.path.append(guard)
            self.bind_target(node.target, x, s, node)
            self.exec_block(node.body, s)
            s.cont = False
            ghost2 = {"_visited": Val(TSet(ety), z3.Store(vis, x.z, True)), "_set": it}
            self.probe("loop#%d-body-reachable" % lid, s)
            self.check_invs("for", lid, spec, s, ghost2, node, "step")
            s.path.pop()
            abrupt = zor(s.brk, s.ret)
            done = z3.ForAll([q], z3.Implies(z3.Select(S, q), z3.Select(vis, q)))
            if is_false(abrupt):
                self.assume(done, h)
                st.env, st.heap = h.env, h.heap
                st.ret, st.ret_val = h.ret, h.ret_val
            else:
                self.assume(z3.Or(done, z3.And(guard, zbool(abrupt))), h)
                self.merge(z3.And(guard, zbool(abrupt)), s, h, st)
            st.brk = False
            st.cont = False
        finally:
            self.loop_entry.pop()

    # ------------------------------------------------------------------ bounded unrolling
    def unroll_for(self, node, st, it):
        it0 = it
        if it.ty.kind == "Set":
            it = self.set_to_list(it, st, node)
        if it.ty.kind == "Iter" and it.py[0] in ("filter", "genif"):
            it = self.realize(it, st, node)
        n, getter, _ = self.as_view(it, st, node)
        B = self.bound
        self.assume(n <= B, st)          # unwinding assumption (stated as bounded(B) in evidence)
        self.unwind_bounds.add((self.cur_qual, getattr(node, "lineno", 0), B))
        for k in range(B):
            kk = z3.IntVal(k)
            c = kk < n
            if is_false(z3.simplify(c)):
                break
            s = st.copy()
            s.path.append(c)
            self.bind_target(node.target, getter(kk), s, node)
            self.exec_block(node.body, s)
            s.cont = False
            if it0.ty.kind == "List" and it0.z is not None and isinstance(node.iter, (ast.Attribute, ast.Name)):
                # same side condition as in INV mode: the engine iterates the list as it was at loop entry
                try:
                    now = self.ev(node.iter, s)
                except Unsupported:
                    now = None
                if now is not None and now.ty.kind == "List" and now.z is not None and not now.z.eq(it0.z):
                    self.oblige("safe", "iterated-list-not-edited-by-a-continuing-iteration", zor(zor(s.brk, s.ret), now.z == it0.z), s, node)
            s.path.pop()
            self.merge(c, s, st.copy(), st)
        st.brk = False

    def unroll_while(self, node, st):
        B = self.bound + 1
        self.unwind_bounds.add((self.cur_qual, getattr(node, "lineno", 0), B))
        for k in range(B):
            c = self.truth(self.ev(node.test, st), node)
            c = zand(c, self.live(st))
            if is_false(c) or is_false(z3.simplify(zbool(c))):
                break
            s = st.copy()
            s.path.append(zbool(c))
            self.exec_block(node.body, s)
            s.cont = False
            s.path.pop()
            self.merge(zbool(c), s, st.copy(), st)
        else:
            c = self.truth(self.ev(node.test, st), node)
            self.assume(z3.Not(zand(c, self.live(st))), st)    # unwinding assumption
        st.brk = False
