"""developer entry point: python3-vt -m pyvc.run <qual> [--mode UNROLL] [--bound N]"""
import os, sys, time, argparse
sys.path.insert(0, os.path.dirname(os.path.dirname(os.path.abspath(__file__))))
from pyvc.source import Source
from pyvc.contracts import load_registry
from pyvc.engine import Engine
from contracts.schema import SCHEMA


def main():
    ap = argparse.ArgumentParser()
    ap.add_argument("qual")
    ap.add_argument("--mode", default="INV")
    ap.add_argument("--bound", type=int, default=3)
    ap.add_argument("--nrefs", type=int, default=4)
    ap.add_argument("--nstrs", type=int, default=4)
    ap.add_argument("--timeout", type=int, default=20000)
    ap.add_argument("--only", default=None)
    ap.add_argument("--dump", default=None)
    a = ap.parse_args()
    src = Source()
    reg = load_registry()
    e = Engine(src, SCHEMA, reg, mode=a.mode, bound=a.bound, nrefs=a.nrefs, nstrs=a.nstrs)
    t0 = time.time()
    obs = e.verify(a.qual)
    print("generated %d obligations in %.2fs, %d assumptions" % (len(obs), time.time() - t0, len(e.assumptions)))
    bad = 0
    for ob in obs:
        if a.only and a.only not in ob.name:
            continue
        r = e.solve(ob, a.timeout, want_model=bool(a.dump), extract=(lambda eng, m: str(m)))
        print("%-8s %6.2fs  %s" % (r, ob.time, ob.name), ob.reason or "")
        if ob.kind == "probe":
            if ob.result == "unsat":
                print("   ^^^ VACUOUS: assumptions are contradictory here")
                bad += 1
            continue
        if r != "unsat":
            bad += 1
            if a.dump and a.dump in ob.name:
                open("/tmp/dump.smt2", "w").write(e.to_smt2(ob))
            if r == "sat" and ob.model is not None and a.dump:
                print(ob.model)
    print("undischarged:", bad)


if __name__ == "__main__":
    main()
