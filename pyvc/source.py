"""Loads the *current* /repo sources (ast only, nothing is imported or executed).

The verified text is exactly what ast.parse returns for the files in
/repo/pDESy/model at the time of the run; see DESIGN.md section 2.1.
"""
import ast
import hashlib
import os
import subprocess

REPO = os.environ.get("PYVC_REPO", "/repo")
MODEL_DIR = os.path.join(REPO, "pDESy", "model")

PRESENTATION_PREFIXES = (
    "plot_", "create_simple_gantt", "create_gantt_plotly", "create_cost_history_plotly",
    "draw_", "get_networkx_graph", "get_node_and_edge_trace", "print_", "__str__",
    "create_data_for_cost_history_plotly",
)


# statements of a real method verified on their own (see Source.get_block)
BLOCKS = {
    "BaseProject.__allocate@placement": {
        "host": "BaseProject.__allocate", "loop_iter": "ready_and_working_task_list",
        "if_test": "task.target_component is not None", "params": ["self", "task", "target_workplace_id_list"]},
    # everything __allocate computes before its loop over the tasks: which tasks, in which order, which free workers
    "BaseProject.__allocate@candidates": {
        "host": "BaseProject.__allocate", "loop_iter": "ready_and_working_task_list", "prefix": True,
        "params": ["self", "task_priority_rule"],
        "exports": ["ready_and_working_task_list", "free_worker_list", "target_workplace_id_list"]},
    # the whole allocation statement of the task loop, guard included (the two branches are also verified on their own below)
    "BaseProject.__allocate@allocation": {
        "host": "BaseProject.__allocate", "loop_iter": "ready_and_working_task_list",
        "if_contains": "task.need_facility", "params": ["self", "task", "free_worker_list"]},
    # the branch that gives facility/worker pairs to a task that needs a facility
    "BaseProject.__allocate@facilities": {
        "host": "BaseProject.__allocate", "loop_iter": "ready_and_working_task_list",
        "if_contains": "task.need_facility", "path": [("task.need_facility", "body")],
        "params": ["self", "task", "free_worker_list"]},
    # the branch that gives workers to a task that needs no facility
    "BaseProject.__allocate@workers": {
        "host": "BaseProject.__allocate", "loop_iter": "ready_and_working_task_list",
        "if_contains": "task.need_facility", "path": [("task.need_facility", "orelse")],
        "params": ["self", "task", "free_worker_list"]},
}


class ClassInfo:
    def __init__(self, name, module, node, bases):
        self.name = name
        self.module = module
        self.node = node
        self.bases = bases
        self.methods = {}
        self.is_enum = "IntEnum" in bases
        self.enum_members = {}


class Source:
    def __init__(self, model_dir=MODEL_DIR):
        self.model_dir = model_dir
        self.modules = {}      # modname -> ast.Module
        self.texts = {}
        self.classes = {}      # clsname -> ClassInfo
        self.functions = {}    # module-level function name -> (modname, FunctionDef)
        self._blocks = {}
        self.load()

    def load(self):
        for fn in sorted(os.listdir(self.model_dir)):
            if not fn.endswith(".py") or fn == "__init__.py":
                continue
            mod = fn[:-3]
            text = open(os.path.join(self.model_dir, fn), encoding="utf-8").read()
            self.texts[mod] = text
            tree = ast.parse(text, filename=fn)
            self.modules[mod] = tree
            for n in tree.body:
                if isinstance(n, ast.ClassDef):
                    bases = [b.id if isinstance(b, ast.Name) else ast.unparse(b) for b in n.bases]
                    ci = ClassInfo(n.name, mod, n, bases)
                    for m in n.body:
                        if isinstance(m, ast.FunctionDef):
                            ci.methods[m.name] = m
                        elif ci.is_enum and isinstance(m, ast.Assign) and len(m.targets) == 1 \
                                and isinstance(m.targets[0], ast.Name):
                            try:
                                ci.enum_members[m.targets[0].id] = ast.literal_eval(m.value)
                            except Exception:
                                pass
                    self.classes[n.name] = ci
                elif isinstance(n, ast.FunctionDef):
                    self.functions[n.name] = (mod, n)

    # ---- lookup -----------------------------------------------------------
    def mro(self, cls):
        out = []
        c = cls
        while c in self.classes:
            out.append(c)
            nxt = [b for b in self.classes[c].bases if b in self.classes]
            if not nxt:
                break
            c = nxt[0]
        return out

    def is_subclass(self, cls, base):
        return base in self.mro(cls)

    def subclasses(self, base):
        return [c for c in self.classes if self.is_subclass(c, base)]

    def find_method(self, cls, name):
        """returns (defining class, FunctionDef) honoring private-name mangling"""
        for c in self.mro(cls):
            ci = self.classes[c]
            if name in ci.methods:
                return c, ci.methods[name]
        return None, None

    def get_block(self, qual):
        """'Cls.method@tag': a statement of the real method, cut out mechanically on every run and wrapped as a function
        whose parameters are the block's free local variables (checked).  Dropped by the extraction: the rest of the host
        method (what runs before/after the block and the enclosing loop) - the block contract is about ONE execution of it."""
        if qual in self._blocks:
            return self._blocks[qual]
        spec = BLOCKS[qual]
        cls, hostname = spec["host"].split(".", 1)
        defcls, host = self.find_method(cls, hostname)
        if host is None:
            raise KeyError(spec["host"])
        if spec.get("prefix"):
            # the statements of the host that run before its loop over `loop_iter` (what the loop is going to iterate over)
            idx = [i for i, st in enumerate(host.body) if isinstance(st, ast.For) and ast.unparse(st.iter) == spec["loop_iter"]]
            if len(idx) != 1:
                raise KeyError("block %s: expected exactly one top-level loop over %s in %s" % (qual, spec["loop_iter"], spec["host"]))
            stmts = [st for st in host.body[:idx[0]]
                     if not (isinstance(st, ast.Expr) and isinstance(st.value, ast.Constant) and isinstance(st.value.value, str))]
            return self._wrap_block(qual, spec, defcls, host, stmts)
        found = []
        for n in ast.walk(host):
            if isinstance(n, ast.For) and ast.unparse(n.iter) == spec["loop_iter"]:
                for st in n.body:
                    if not isinstance(st, ast.If):
                        continue
                    if "if_test" in spec and ast.unparse(st.test) == spec["if_test"]:
                        found.append((n, st))
                    elif "if_contains" in spec and any(isinstance(x, ast.If) and ast.unparse(x.test) == spec["if_contains"] for x in st.body):
                        # selected by what it contains, whatever its own test is (the test is then a matter for the contract)
                        found.append((n, st))
        if len(found) != 1:
            raise KeyError("block %s: expected exactly one `if %s` in the loop over %s of %s, found %d"
                           % (qual, spec.get("if_test") or ("... containing `if %s`" % spec.get("if_contains")), spec["loop_iter"], spec["host"], len(found)))
        loop, stmt = found[0]
        stmts = [stmt]
        for test, branch in spec.get("path", []):
            inner = [x for x in stmts[0].body if isinstance(x, ast.If) and ast.unparse(x.test) == test] if len(stmts) == 1 and isinstance(stmts[0], ast.If) else []
            if len(inner) != 1:
                raise KeyError("block %s: expected exactly one `if %s` on the path, found %d" % (qual, test, len(inner)))
            stmts = list(getattr(inner[0], branch))
            if not stmts:
                raise KeyError("block %s: empty branch %s of `if %s`" % (qual, branch, test))
        return self._wrap_block(qual, spec, defcls, host, stmts)

    def _wrap_block(self, qual, spec, defcls, host, stmts):
        stmt = ast.Module(body=stmts, type_ignores=[])      # only walked below; the function body is `stmts`
        # free local variables of the block = names it loads that the host assigns (parameters, loop targets, locals)
        host_locals = {a.arg for a in host.args.args}
        for n in ast.walk(host):
            if isinstance(n, ast.Name) and isinstance(n.ctx, ast.Store):
                host_locals.add(n.id)
        stored_in_block, free = set(), []
        bound_by_comprehension = set()
        for n in ast.walk(stmt):
            if isinstance(n, ast.comprehension):
                for t in ast.walk(n.target):
                    if isinstance(t, ast.Name):
                        bound_by_comprehension.add(t.id)
            if isinstance(n, ast.Lambda):
                bound_by_comprehension |= {a.arg for a in n.args.args}
        for n in ast.walk(stmt):         # ast.walk is breadth-first; a conservative def-before-use test is enough here:
            if isinstance(n, ast.Name) and isinstance(n.ctx, ast.Store):
                stored_in_block.add(n.id)
        first_use = {}
        class V(ast.NodeVisitor):
            def visit_Name(v, n):
                first_use.setdefault(n.id, type(n.ctx).__name__)

            def visit_Assign(v, n):          # evaluation order: the value is read before the target is bound
                v.visit(n.value)
                for t in n.targets:
                    v.visit(t)

            def visit_AugAssign(v, n):
                if isinstance(n.target, ast.Name):
                    first_use.setdefault(n.target.id, "Load")
                v.visit(n.value)
                v.visit(n.target)
        V().visit(stmt)                  # depth-first, source order
        for name, ctx in first_use.items():
            if name in host_locals and ctx == "Load" and name not in bound_by_comprehension:
                free.append(name)
        if sorted(set(free) | {"self"}) != sorted(spec["params"]):
            raise KeyError("block %s: free variables %r differ from the declared parameters %r" % (qual, sorted(free), sorted(spec["params"])))
        for n in ast.walk(stmt):
            if isinstance(n, (ast.Return, ast.Continue)):
                raise KeyError("block %s contains return/continue of the host" % qual)
        fn = ast.FunctionDef(name=qual.split(".", 1)[1],
                             args=ast.arguments(posonlyargs=[], args=[ast.arg(arg=p) for p in spec["params"]], kwonlyargs=[],
                                                kw_defaults=[], defaults=[]),
                             body=stmts, decorator_list=[], lineno=stmts[0].lineno, end_lineno=stmts[-1].end_lineno, col_offset=0)
        ast.fix_missing_locations(fn)
        fn.lineno, fn.end_lineno = stmts[0].lineno, stmts[-1].end_lineno
        self._blocks[qual] = (defcls, fn)
        return defcls, fn

    def get_function(self, qual):
        """qual: 'BaseTask.perform' or 'sort_task_list' (module-level)."""
        if "@" in qual:
            return self.get_block(qual)
        if "." in qual:
            cls, name = qual.split(".", 1)
            c, fn = self.find_method(cls, name)
            if fn is None:
                raise KeyError(qual)
            return c, fn
        mod, fn = self.functions[qual]
        return None, fn

    def module_of(self, qual):
        if "." in qual:
            cls = qual.split(".", 1)[0]
            return self.classes[cls].module
        return self.functions[qual][0]

    def func_hash(self, qual):
        c, fn = self.get_function(qual)
        seg = ast.dump(fn, include_attributes=False)
        return hashlib.sha256(seg.encode()).hexdigest()[:16]

    def func_span(self, qual):
        c, fn = self.get_function(qual)
        return "%s.py:%d-%d" % (self.module_of(qual), fn.lineno, fn.end_lineno)

    def enum_value(self, cls, member):
        return self.classes[cls].enum_members[member]

    def enums(self):
        return {c: ci.enum_members for c, ci in self.classes.items() if ci.is_enum}

    def all_function_quals(self, include_presentation=False):
        out = []
        for c, ci in self.classes.items():
            if ci.is_enum:
                continue
            for m in ci.methods:
                if not include_presentation and m.startswith(PRESENTATION_PREFIXES):
                    continue
                out.append("%s.%s" % (c, m))
        for f in self.functions:
            out.append(f)
        return out


def repo_head():
    try:
        return subprocess.run(["git", "-C", REPO, "rev-parse", "HEAD"], capture_output=True,
                              text=True).stdout.strip()
    except Exception:
        return "?"


def tree_digest(src):
    h = hashlib.sha256()
    for m in sorted(src.texts):
        h.update(m.encode())
        h.update(src.texts[m].encode())
    return h.hexdigest()[:16]
