"""Contract registry.  Contracts live in /verif/contracts/*.py as calls to `contract(...)` / `define(...)`."""
import ast
import importlib.util
import os

from .vtypes import parse_type


class Contract:
    def __init__(self, qual, types=None, returns=None, requires=(), ensures=(), modifies=(), loops=None,
                 inline=False, props=(), note="", pure=False, bounded=None, may_raise=False, fixed=None, result_is=None, bounded_requires=(),
                 unreachable_loops=()):
        self.unreachable_loops = list(unreachable_loops)      # loops excluded by the precondition (stated in evidence); no reachability probe
        self.bounded_requires = list(bounded_requires)
        self.result_is = result_is
        self.fixed = dict(fixed or {})
        self.qual = qual
        self.types = {k: parse_type(v) for k, v in (types or {}).items()}
        self.returns = parse_type(returns) if returns else None
        self.requires = list(requires)
        self.ensures_labeled = []
        for i, e in enumerate(ensures):
            if isinstance(e, tuple):
                self.ensures_labeled.append((e[0], e[1]))
            else:
                self.ensures_labeled.append(("e%d" % i, e))
        self.ensures = [e for _, e in self.ensures_labeled]
        self.modifies = list(modifies)
        self.loops = {}
        for k, invs in (loops or {}).items():
            out = []
            for j, inv in enumerate(invs):
                if isinstance(inv, tuple):
                    out.append((inv[0], inv[1]))
                else:
                    out.append(("c%d" % j, inv))
            self.loops[k] = out
        self.inline = inline
        self.props = list(props)
        self.note = note
        self.pure = pure
        self.bounded = bounded
        self.may_raise = may_raise

    def frame(self, engine):
        """yields (heapkey, footprint-expr-or-None)"""
        out = []
        for m in self.modifies:
            fp = None
            if "@" in m:
                m, fp = m.split("@", 1)
            cls, attr = m.strip().split(".")
            out.append((engine.field_key(cls, attr), fp.strip() if fp else None))
        return out


class Registry:
    def __init__(self):
        self.contracts = {}
        self.defs = {}
        self.lemmas = []

    def contract(self, qual, **kw):
        if qual in self.contracts:
            raise ValueError("duplicate contract " + qual)
        self.contracts[qual] = Contract(qual, **kw)

    def define(self, sig, body):
        name = sig[:sig.index("(")].strip()
        params = [p.strip() for p in sig[sig.index("(") + 1:sig.rindex(")")].split(",") if p.strip()]
        ast.parse("(" + body.strip() + ")", mode="eval")
        self.defs[name] = (params, body)

    def get(self, qual):
        return self.contracts.get(qual)


def load_registry(directory=None, only=None):
    directory = directory or os.path.join(os.path.dirname(os.path.dirname(os.path.abspath(__file__))), "contracts")
    reg = Registry()
    for fn in sorted(os.listdir(directory)):
        if not fn.endswith(".py") or fn in ("schema.py", "__init__.py", "props.py"):
            continue
        if only is not None and fn[:-3] not in only:
            continue
        spec = importlib.util.spec_from_file_location("contracts_" + fn[:-3], os.path.join(directory, fn))
        mod = importlib.util.module_from_spec(spec)
        mod.contract = reg.contract
        mod.define = reg.define
        spec.loader.exec_module(mod)
    return reg
