"""Calls: builtins with axioms (DESIGN 2.6), container methods, calls by contract, inlining, spec vocabulary."""
import ast
import z3

from .vtypes import (TInt, TReal, TBool, TStr, TNone, TDate, TDelta, TJson, TRef, TEnum, TList, TSet, TTuple,
                     TDict, TOpt, parse_type)
from .core import (Val, Unsupported, TPoison, T_EMPTY, T_LAMBDA, T_CLASS, T_BUILTIN, T_METHOD, T_FUNC,
                   T_MODULE, T_ITER, SPECIAL_KINDS, MUTATORS, zbool, zand, zor, znot, is_true, is_false, State,
                   TSpecial)

SPEC_FORMS = {"old", "pre", "forall", "exists", "implies", "iff", "forall_obj", "forall_int", "exists_int",
              "let", "ite", "seq_eq", "is_none", "unchanged", "typeis", "elems", "idx_of", "count_int",
              "forall_str", "fresh_obj", "unchanged_except", "to_int", "to_real", "forall_int_t", "sum_of", "sum_upto", "is_perm", "sorted_by", "stable_wrt", "ghost_int", "same", "at_head", "flat_elems", "fold_int", "ghost_rel"}


def _forall_pat(vs, body, patterns):
    """ForAll with explicit patterns, falling back to inferred patterns when z3 rejects them (e.g. ite in a pattern)"""
    try:
        return z3.ForAll(vs, body, patterns=patterns)
    except z3.Z3Exception:
        return z3.ForAll(vs, body)


class TKwargsT(TSpecial):
    pass


T_KWARGS = TKwargsT("Kwargs")


def abstract_over(term, kc):
    """replace the maximal sub-terms of `term` that do not contain kc (and are not numerals) by placeholders.
    returns (template string, [argument terms]) or (None, None) if a quantifier mentions kc"""
    has = {}

    def contains(e):
        i = e.get_id()
        if i in has:
            return has[i]
        if z3.is_quantifier(e):
            r = contains(e.body())
        elif z3.is_var(e):
            r = False
        else:
            r = e.eq(kc) or any(contains(c) for c in e.children())
        has[i] = r
        return r
    args, index = [], {}
    fail = [False]
    COMM = {z3.Z3_OP_EQ, z3.Z3_OP_DISTINCT, z3.Z3_OP_AND, z3.Z3_OP_OR, z3.Z3_OP_ADD, z3.Z3_OP_MUL, z3.Z3_OP_IFF}
    shapes = {}

    def shape(e):
        i = e.get_id()
        if i in shapes:
            return shapes[i]
        if not contains(e):
            r = e.sexpr() if (z3.is_int_value(e) or z3.is_rational_value(e) or z3.is_true(e) or z3.is_false(e)) else "?%s" % e.sort()
        elif z3.is_quantifier(e):
            r = "Q"
        elif e.eq(kc):
            r = "K"
        else:
            cs = [shape(c) for c in e.children()]
            if e.decl().kind() in COMM:
                cs = sorted(cs)
            r = "(%s %s)" % (e.decl().name(), " ".join(cs))
        shapes[i] = r
        return r

    def kids(e):
        cs = list(e.children())
        if e.decl().kind() in COMM:
            cs = sorted(cs, key=shape)
        return cs

    def go(e):
        if not contains(e):
            if z3.is_int_value(e) or z3.is_rational_value(e) or z3.is_true(e) or z3.is_false(e):
                return e.sexpr()
            i = e.get_id()
            if i not in index:
                index[i] = len(args)
                args.append(e)
            return "?%d:%s" % (index[i], e.sort())
        if z3.is_quantifier(e):
            fail[0] = True
            return "Q"
        if e.eq(kc):
            return "K"
        return "(%s %s)" % (e.decl().name() + "/" + str(e.decl().kind()), " ".join(go(c) for c in kids(e)))
    t = go(term)
    if fail[0]:
        return None, None
    return t, args


def abstract_over2(term, kc, ac):
    """like abstract_over, but with two holes (index kc and accumulator ac)"""
    has = {}

    def contains(e):
        i = e.get_id()
        if i in has:
            return has[i]
        if z3.is_quantifier(e):
            r = contains(e.body())
        elif z3.is_var(e):
            r = False
        else:
            r = e.eq(kc) or e.eq(ac) or any(contains(c) for c in e.children())
        has[i] = r
        return r
    args, index = [], {}
    fail = [False]

    def go(e):
        if not contains(e):
            if z3.is_int_value(e) or z3.is_rational_value(e) or z3.is_true(e) or z3.is_false(e):
                return e.sexpr()
            i = e.get_id()
            if i not in index:
                index[i] = len(args)
                args.append(e)
            return "?%d:%s" % (index[i], e.sort())
        if z3.is_quantifier(e):
            fail[0] = True
            return "Q"
        if e.eq(kc):
            return "K"
        if e.eq(ac):
            return "A"
        return "(%s %s)" % (e.decl().name(), " ".join(go(c) for c in e.children()))
    t = go(term)
    if fail[0]:
        return None, None
    return t, args


class CallMixin:
    spec_builtins = SPEC_FORMS

    # ------------------------------------------------------------------ Call node
    def ev_Call(self, node, st):
        f = node.func
        # spec special forms take unevaluated arguments
        if isinstance(f, ast.Name) and f.id in SPEC_FORMS and (self.spec or f.id not in st.env):
            if f.id in self.defs:
                pass
            else:
                return self.spec_form(f.id, node, st)
        if isinstance(f, ast.Name) and f.id in self.defs:
            return self.call_def(f.id, node, st)
        # in-place mutation of containers needs the lvalue
        if isinstance(f, ast.Attribute) and f.attr in MUTATORS:
            recv = self.ev(f.value, st)
            if recv.ty.kind in ("List", "EmptyList", "Set", "Dict", "Opt"):
                args = [self.ev(a, st) for a in node.args]
                return self.mutate(f.value, recv, f.attr, args, st, node)
            fn = self.get_attr(recv, f.attr, st, node)
        else:
            fn = self.ev(f, st)
        args = []
        for a in node.args:
            if isinstance(a, ast.Starred):
                raise Unsupported("*args", node)
            args.append(self.ev(a, st))
        kwargs = {}
        for kw in node.keywords:
            if kw.arg is None:
                raise Unsupported("**kwargs at call site", node)
            kwargs[kw.arg] = self.ev(kw.value, st)
        return self.call_value(fn, args, kwargs, st, node)

    def call_value(self, fn, args, kwargs, st, node=None):
        k = fn.ty.kind
        if k == "Builtin":
            m = getattr(self, "bi_" + fn.py, None)
            if m is None:
                raise Unsupported("builtin %s" % fn.py, node)
            return m(args, kwargs, st, node)
        if k == "BoundMethod":
            base, attr = fn.py
            if base.ty.kind == "Ref":
                return self.call_method(base, attr, args, kwargs, st, node)
            return self.container_method(base, attr, args, kwargs, st, node)
        if k == "Func":
            qual = fn.py
            if "." in qual:
                cls, name = qual.split(".", 1)
                return self.call_function(qual, args[0], args[1:], kwargs, st, node)
            return self.call_function(qual, None, args, kwargs, st, node)
        if k == "Lambda":
            return self.apply_fn(fn, args, st, node)
        if k == "Module":
            return self.module_call(fn.py, args, kwargs, st, node)
        if k == "Class":
            return self.construct(fn.py, args, kwargs, st, node)
        if k == "LocalFunc":
            return self.call_local_func(fn, args, kwargs, st, node)
        raise Unsupported("call of %r" % (fn.ty,), node)

    # ------------------------------------------------------------------ user functions
    def call_method(self, base, attr, args, kwargs, st, node=None):
        cls = base.ty.cls
        defcls, fn = self.src.find_method(cls, attr)
        if fn is None:
            raise Unsupported("method %s.%s" % (cls, attr), node)
        self.oblige("safe", "none-call.%s" % attr, base.z != self.S.null, st, node)
        # an instance attribute of a subclass with the same name shadows the method: `obj.m(...)` would call the attribute
        for sub in self.src.subclasses(cls):
            if sub != cls and sub in self.schema and attr in self.schema[sub]:
                self.oblige("safe", "method-%s-shadowed-by-attribute-of-%s" % (attr, sub),
                            z3.And(*[self.cls_of(base.z) != self.class_ids[x] for x in self.src.subclasses(sub)]), st, node)
        return self.call_function("%s.%s" % (defcls, attr), base, args, kwargs, st, node)

    def bind_params(self, qual, fn, selfv, args, kwargs, st, node=None):
        a = fn.args
        params = [x.arg for x in a.args]
        env = {}
        if selfv is not None:
            env[params[0]] = selfv
            params = params[1:]
        if len(args) > len(params):
            self.oblige("safe", "arity.%s" % qual, False, st, node)
            raise Unsupported("too many positional arguments for %s" % qual, node)
        for p, v in zip(params, args):
            env[p] = v
        extra = {}
        for k, v in kwargs.items():
            if k in params:
                if k in env:
                    self.oblige("safe", "arity.%s" % qual, False, st, node)
                env[k] = v
            elif a.kwarg is not None:
                extra[k] = v
            else:
                self.oblige("safe", "arity.%s.unexpected-keyword-%s" % (qual, k), False, st, node)
                raise Unsupported("unexpected keyword %s for %s" % (k, qual), node)
        defaults = a.defaults
        all_params = [x.arg for x in a.args]
        first_default = len(all_params) - len(defaults)
        for i, p in enumerate(all_params):
            if p in env:
                continue
            if i >= first_default:
                dnode = defaults[i - first_default]
                dst = State()
                saved = self.spec
                self.spec += 1       # defaults are constants; no obligations
                try:
                    if isinstance(dnode, ast.List) and not dnode.elts:
                        env[p] = Val(T_EMPTY, None)
                    elif isinstance(dnode, ast.Dict) and not dnode.keys:
                        env[p] = Val(TNone, self.S.none_val, py="emptydict")
                    else:
                        env[p] = self.ev(dnode, dst)
                finally:
                    self.spec = saved
            else:
                self.oblige("safe", "arity.%s.missing-%s" % (qual, p), False, st, node)
                raise Unsupported("missing argument %s for %s" % (p, qual), node)
        if a.kwarg is not None:
            env[a.kwarg.arg] = Val(T_KWARGS, None, py=extra)
        return env

    def call_function(self, qual, selfv, args, kwargs, st, node=None):
        defcls, fn = self.src.get_function(qual)
        env = self.bind_params(qual, fn, selfv, args, kwargs, st, node)
        c = self.contracts.get(qual)
        if c is not None and not c.inline and qual not in self.force_inline:
            return self.call_by_contract(qual, c, env, st, node)
        return self.inline_call(qual, defcls, fn, env, st, node)

    def inline_call(self, qual, defcls, fn, env, st, node=None):
        if self.call_depth > 12:
            raise Unsupported("inlining depth exceeded at %s (recursive function needs a contract)" % qual, node)
        if qual in self.inline_stack:
            if self.mode != "UNROLL":
                raise Unsupported("recursive function %s needs a contract" % qual, node)
            if self.inline_stack.count(qual) >= self.rec_limit:
                # unwinding assumption for recursion: deeper nesting is outside the explored bound
                self.unwind_bounds.add((qual, getattr(node, "lineno", 0), self.rec_limit))
                self.assume(z3.Not(zbool(self.live(st))), st)
                return Val(TNone, self.S.none_val)
        self.inlined.add(qual)
        live = self.live(st)
        sub = st.copy()
        sub.env = env
        sub.ret, sub.ret_val, sub.brk, sub.cont = False, None, False, False
        if not is_true(live):
            sub.path.append(zbool(live))
        saved = (self.cur_qual, self.cur_cls, self.loop_ids)
        self.cur_qual, self.cur_cls = qual, defcls
        self.loop_ids = self.number_loops(fn)
        self.call_depth += 1
        self.inline_stack.append(qual)
        try:
            self.exec_block(fn.body, sub)
        finally:
            self.inline_stack.pop()
            self.call_depth -= 1
            self.cur_qual, self.cur_cls, self.loop_ids = saved
        # write effects back
        if is_true(live):
            st.heap = sub.heap
        else:
            lz = zbool(live)
            heap = {}
            for k in set(sub.heap) | set(st.heap):
                a = sub.heap.get(k)
                b = st.heap.get(k)
                if a is None:
                    a = b
                if b is None:
                    b = self.initial_heap_arr(k)
                heap[k] = a if a.eq(b) else z3.If(lz, a, b)
            st.heap = heap
        # caller locals that alias fields mutated by the callee are refreshed lazily: poison aliases
        rv = sub.ret_val
        if rv is None:
            return Val(TNone, self.S.none_val)
        if not is_true(sub.ret) and not self.dry:
            # function may fall off the end returning None on some path
            if rv.ty.kind in SPECIAL_KINDS:
                return rv
            nonev = Val(TNone, self.S.none_val)
            r = self.ite_val(zbool(sub.ret), rv, nonev)
            if r.ty.kind == "Poison":
                raise Unsupported("function %s returns a value on some paths and None on others" % qual, node)
            return r
        return rv

    def call_by_contract(self, qual, c, env, st, node=None):
        self.called_by_contract.add(qual)
        line = getattr(node, "lineno", 0)
        # keyword extras (**kwargs) are visible to the contract as kw_<name>
        for p, t in c.types.items():
            if p.startswith("kw_") and p not in env:
                kwv = [v for k2, v in env.items() if v is not None and v.ty.kind == "Kwargs"]
                passed = kwv[0].py if kwv else {}
                env[p] = passed[p[3:]] if p[3:] in passed else self.fresh_val(t, "absent_" + p)
        # coerce arguments to declared types
        for p, t in c.types.items():
            if p in env and env[p].ty.kind not in SPECIAL_KINDS:
                try:
                    env[p] = self.coerce(env[p], t, node)
                except Unsupported:
                    self.oblige("safe", "argtype.%s.%s" % (qual, p), False, st, node)
                    raise
        variants = self.split_on_merged_heap(st)
        for i, r in enumerate(c.requires):
            if variants is None:
                g = self.eval_spec(r, env, st, old_heap=st.heap, old_env=env)
                self.oblige_split("pre", "%s#%d" % (qual, i), g, st, node, info={"callee": qual, "clause": r})
            else:
                # the heap is an if-then-else merge of two branches: prove the precondition on each branch separately
                # (each branch state is one in which the clause has usually been established literally)
                for tag, cnd, hv in variants:
                    sv = st.copy()
                    sv.heap = hv
                    sv.path.append(cnd)
                    g = self.eval_spec(r, env, sv, old_heap=hv, old_env=env)
                    self.oblige_split("pre", "%s#%d[%s]" % (qual, i, tag), g, sv, node, info={"callee": qual, "clause": r})
                # the clause itself, in the merged state, for the code that follows
                g = self.eval_spec(r, env, st, old_heap=st.heap, old_env=env)
                self.assume(z3.Implies(zbool(self.live(st)), g), st)
        old_heap = dict(st.heap)
        # havoc frame
        live = self.live(st)
        for key, fp in c.frame(self):
            old_arr = self.heap_arr(st, key)
            new_arr = self.fresh(old_arr.sort(), "H_%s_%s" % key)
            if fp is not None and fp != "*":
                fpv = self.eval_spec_val(fp, env, st, old_heap=old_heap, old_env=env)
                self.assume_footprint(old_arr, new_arr, fpv, st)
            st.heap[key] = new_arr if is_true(live) else z3.If(zbool(live), new_arr, old_arr)
            st.written.add(key)
        res = None
        if c.returns is not None and c.result_is is not None and not c.modifies:
            # functional contract: the result IS the stated expression (the callee proves `result == <expr>`)
            val = self.eval_spec_val(c.result_is, env, st, old_heap=old_heap, old_env=env)
            return self.coerce(val, c.returns, node)
        if c.returns is not None:
            cache_key = None
            if c.pure and not c.modifies and not self.binders:
                # a pure function of its arguments and the heap: the same arguments in the same heap give the
                # same (unknown) value, so two calls can be related (e.g. a call in the code and one in a spec)
                cache_key = (qual, tuple(sorted((k, v.z.get_id()) for k, v in env.items()
                                              if v is not None and z3.is_expr(v.z))),
                             tuple(sorted((k, a.get_id()) for k, a in st.heap.items())))
                hit = self.pure_cache.get(cache_key)
                if hit is not None:
                    return hit
            res = self.fresh_val(c.returns, "res_%s" % qual.replace(".", "_"))
            if cache_key is not None:
                self.pure_cache[cache_key] = res
        env2 = dict(env)
        if res is not None:
            env2["result"] = res
        self.assuming_post += 1
        try:
            for lab, e in c.ensures_labeled:
                if lab.startswith("bounded:"):
                    self.bounded_clauses_assumed.add("%s/%s" % (qual, lab))
                g = self.eval_spec(e, env2, st, old_heap=old_heap, old_env=env)
                self.assume(g, st)
        finally:
            self.assuming_post -= 1
        if res is None:
            return Val(TNone, self.S.none_val)
        return res

    def split_on_merged_heap(self, st):
        """if heap arrays are top-level ite(c, a, b) on one common condition c, return the two branch heaps"""
        if self.mode == "UNROLL" or self.binders:
            return None
        cond = getattr(st, "last_merge", None)
        if cond is None or not any(z3.is_app_of(arr, z3.Z3_OP_ITE) and arr.arg(0).eq(cond) for arr in st.heap.values()):
            return None
        ha, hb = {}, {}
        for k, arr in st.heap.items():
            if z3.is_app_of(arr, z3.Z3_OP_ITE) and arr.arg(0).eq(cond):
                ha[k], hb[k] = arr.arg(1), arr.arg(2)
            else:
                ha[k] = hb[k] = arr
        return [("then", cond, ha), ("else", z3.Not(cond), hb)]

    def assume_footprint(self, old_arr, new_arr, fpv, st):
        x = self.qvar("r", self.S.Ref)
        if fpv.ty.kind == "Ref":
            self.assume(z3.ForAll([x], z3.Implies(x != fpv.z, z3.Select(new_arr, x) == z3.Select(old_arr, x))), st)
        elif fpv.ty.kind == "List":
            if self.mode == "UNROLL":
                inside = lambda r: self.member(Val(fpv.ty.elem, r), fpv)
                for cst in [self.S.null] + list(self.S.ref_consts):
                    self.assume(z3.Implies(z3.Not(inside(cst)), z3.Select(new_arr, cst) == z3.Select(old_arr, cst)), st)
            else:
                idx = z3.Function("fpidx!%d" % next(self.counter), self.S.Ref, z3.IntSort())
                self.assume(z3.ForAll([x], z3.Implies(
                    z3.Select(new_arr, x) != z3.Select(old_arr, x),
                    z3.And(idx(x) >= 0, idx(x) < self.list_len(fpv), self.list_get(fpv, idx(x)) == x))), st)
        elif fpv.ty.kind == "Set":
            self.assume(z3.ForAll([x], z3.Implies(z3.Not(z3.Select(fpv.z, x)),
                                                  z3.Select(new_arr, x) == z3.Select(old_arr, x))), st)
        elif fpv.ty.kind == "EmptyList":
            self.assume(new_arr == old_arr, st)
        else:
            raise Unsupported("footprint of type %r" % (fpv.ty,))

    # ------------------------------------------------------------------ spec evaluation
    def eval_spec_val(self, expr, env, st, old_heap=None, old_env=None):
        tree = expr if isinstance(expr, ast.AST) else self.parse_spec(expr)
        sub = st.copy()
        sub.env = dict(env)
        saved = (self.old_heap, self.old_env, self.in_old)
        if old_heap is not None:
            self.old_heap, self.old_env = old_heap, old_env
        self.in_old = False
        self.spec += 1
        try:
            return self.ev(tree, sub)
        finally:
            self.spec -= 1
            self.old_heap, self.old_env, self.in_old = saved

    def eval_spec(self, expr, env, st, old_heap=None, old_env=None):
        """boolean value of a specification; memoised on (text, argument terms, the heap arrays it reads) so that the
        same clause evaluated twice in the same state is the SAME term (a precondition that literally is an earlier
        assumption is then discharged syntactically instead of by re-proving an alpha-equivalent quantified formula)"""
        if not isinstance(expr, str) or self.binders or self.mode == "UNROLL" or "pre(" in expr or "at_head(" in expr:
            return self.truth(self.eval_spec_val(expr, env, st, old_heap, old_env))
        ekey = (expr, tuple(sorted((k, v.z.get_id()) for k, v in env.items() if v is not None and z3.is_expr(v.z))),
                tuple(sorted((k, v.z.get_id()) for k, v in (old_env or {}).items() if v is not None and z3.is_expr(v.z))))
        oh = old_heap if old_heap is not None else self.old_heap

        def current(tag, key):
            h = st.heap if tag == "new" else oh
            cur = h.get(key) if h is not None else None
            return (cur if cur is not None else self.initial_heap_arr(key)).get_id()
        for reads, val in self.spec_value_cache.get(ekey, []):
            if all(current(tag, key) == aid for (tag, key), aid in reads.items()):
                return val
        saved_log, saved_tag = self.read_log, self.heap_tag
        self.read_log = []
        self.heap_tag = "new"
        try:
            val = self.truth(self.eval_spec_val(expr, env, st, old_heap, old_env))
            log = self.read_log
        finally:
            self.read_log, self.heap_tag = saved_log, saved_tag
        reads = {}
        ok = True
        for tag, key, aid in log:
            if reads.get((tag, key), aid) != aid:
                ok = False          # the same attribute read in two different heaps under one tag: do not cache
            reads[(tag, key)] = aid
        if ok:
            self.spec_value_cache.setdefault(ekey, []).append((reads, val))
        return val

    def parse_spec(self, text):
        if text not in self._spec_cache:
            try:
                self._spec_cache[text] = ast.parse("(" + text.strip() + ")", mode="eval").body
            except SyntaxError as e:
                raise Unsupported("syntax error in spec %r: %s" % (text, e))
        return self._spec_cache[text]

    def call_def(self, name, node, st):
        params, body = self.defs[name]
        args = [self.ev(a, st) for a in node.args]
        if len(args) != len(params):
            raise Unsupported("ghost definition %s arity" % name, node)
        sub = st.copy()
        sub.env = dict(zip(params, args))
        cacheable = (not self.binders and self.mode != "UNROLL" and "old(" not in body and "pre(" not in body
                     and "at_head(" not in body and all(z3.is_expr(a.z) for a in args))
        key = None
        if cacheable:
            # the same definition applied to the same arguments in the same heap is the SAME term
            key = (name, tuple(a.z.get_id() for a in args))
            for reads, val in self.def_cache.get(key, []):
                if all((st.heap.get(k) if st.heap.get(k) is not None else self.initial_heap_arr(k)).get_id() == aid
                       for k, aid in reads.items()):
                    if self.read_log is not None:
                        self.read_log.extend((self.heap_tag, k, aid) for k, aid in reads.items())
                    return val
        saved_log = self.read_log
        self.read_log = [] if cacheable else saved_log
        self.spec += 1
        try:
            val = self.ev(self.parse_spec(body), sub)
            log = self.read_log
        finally:
            self.spec -= 1
            self.read_log = saved_log
        if cacheable:
            if saved_log is not None:
                saved_log.extend(log)
            rd = {}
            okc = True
            for tag, k, aid in log:
                if rd.get(k, aid) != aid:
                    okc = False
                rd[k] = aid
            if okc:
                self.def_cache.setdefault(key, []).append((rd, val))
        return val

    def spec_form(self, name, node, st):
        a = node.args
        if name == "old":
            if self.old_heap is None:
                raise Unsupported("old() outside a two-state context", node)
            sub = st.copy()
            if self.old_env is not None:
                # parameters keep their entry values; bound variables stay visible
                env = dict(st.env)
                for k, v in self.old_env.items():
                    if k in env and k != "result":
                        env[k] = v
                sub.env = env
            sub.heap = dict(self.old_heap)
            saved = self.in_old
            saved_tag = self.heap_tag
            self.in_old = False
            self.heap_tag = "old"
            try:
                return self.ev(a[0], sub)
            finally:
                self.in_old = saved
                self.heap_tag = saved_tag
        if name == "at_head":
            if not self.loop_head:
                raise Unsupported("at_head() outside a step clause", node)
            heap, env = self.loop_head[-1]
            sub = st.copy()
            e2 = dict(st.env)
            for k2, v2 in env.items():
                e2[k2] = v2
            sub.env = e2
            sub.heap = dict(heap)
            return self.ev(a[0], sub)
        if name == "pre":
            if not self.loop_entry:
                raise Unsupported("pre() outside a loop invariant", node)
            heap, env = self.loop_entry[-1]
            sub = st.copy()
            e2 = dict(st.env)
            for k, v in env.items():
                e2[k] = v
            sub.env = e2
            sub.heap = dict(heap)
            return self.ev(a[0], sub)
        if name == "implies":
            p = self.truth(self.ev(a[0], st))
            st.path.append(p)
            try:
                q = self.truth(self.ev(a[1], st))
            finally:
                st.path.pop()
            return Val(TBool, z3.Implies(p, q))
        if name == "iff":
            return Val(TBool, self.truth(self.ev(a[0], st)) == self.truth(self.ev(a[1], st)))
        if name == "ite":
            c = self.truth(self.ev(a[0], st))
            x, y = self.ev(a[1], st), self.ev(a[2], st)
            return self.ite_val(c, x, y)
        if name in ("forall", "exists"):
            coll = self.ev(a[0], st)
            lam = self.ev(a[1], st)
            return Val(TBool, self.quantify_coll(name == "forall", coll, lam, st, node))
        if name in ("forall_int", "exists_int"):
            lo = self.coerce(self.ev(a[0], st), TInt).z
            hi = self.coerce(self.ev(a[1], st), TInt).z
            lam = self.ev(a[2], st)
            return Val(TBool, self.quantify_int(name == "forall_int", lo, hi, lam, st, node))
        if name == "forall_int_t":
            # forall over all integers with an explicit trigger guard T(k) (T uninterpreted): the formula is
            # proved for every interpretation of T, in particular T = true; the guard only steers instantiation
            lam = self.ev(a[0], st)
            T = self.uf("qtrig", z3.IntSort(), z3.BoolSort())
            if self.mode == "UNROLL":
                return Val(TBool, z3.And(*[self.truth(self.apply_fn(lam, [Val(TInt, z3.IntVal(i))], st, node))
                                           for i in range(-1, self.bound + 2)]))
            k = self.qvar()
            self.binders.append((k, T(k)))
            try:
                b = self.truth(self.apply_fn(lam, [Val(TInt, k)], st, node))
            finally:
                self.binders.pop()
            return Val(TBool, _forall_pat([k], z3.Implies(T(k), b), [T(k)]))
        if name == "forall_obj":
            cls = a[0].value
            lam = self.ev(a[1], st)
            return Val(TBool, self.quantify_obj(cls, lam, st, node))
        if name == "forall_str":
            lam = self.ev(a[0], st)
            x = self.qvar("s", self.S.Str)
            if self.S.str_consts is not None:
                return Val(TBool, z3.And(*[self.truth(self.apply_fn(lam, [Val(TStr, c)], st, node)) for c in self.S.str_consts]))
            self.binders.append((x, z3.BoolVal(True)))
            try:
                body = self.truth(self.apply_fn(lam, [Val(TStr, x)], st, node))
            finally:
                self.binders.pop()
            return Val(TBool, z3.ForAll([x], body))
        if name == "let":
            v = self.ev(a[0], st)
            lam = self.ev(a[1], st)
            return self.apply_fn(lam, [v], st, node)
        if name in ("sum_of", "sum_upto"):
            coll = self.ev(a[0], st)
            lam = self.ev(a[1], st)
            if coll.ty.kind == "EmptyList":
                return Val(TInt, z3.IntVal(0))
            n, g0, _ = self.as_view(coll, st, node)
            g = lambda i: self.apply_fn(lam, [g0(i)], st, node)
            et = self.elem_type_of_view(n, g, st)
            rt = TReal if et.kind == "Real" else TInt
            upto = n if name == "sum_of" else self.coerce(self.ev(a[2], st), TInt).z
            if self.mode == "UNROLL":
                acc = z3.RealVal(0) if rt == TReal else z3.IntVal(0)
                for i in range(self.bound):
                    ii = z3.IntVal(i)
                    acc = z3.If(z3.And(ii < n, ii < upto), acc + self.coerce(g(ii), rt, node).z, acc)
                return Val(rt, acc)
            ps, bvs = self.prefix_sum_fn(n, g, rt, st, node)
            return Val(rt, ps(*bvs, upto))
        if name == "fold_int":
            # fold_int(seq, init, lambda acc, x: step, upto): left fold of an integer accumulator over seq[0:upto);
            # a canonical function symbol (template of the step term) with its one-step unfolding as axiom
            seq = self.ev(a[0], st)
            init = self.coerce(self.ev(a[1], st), TInt, node).z
            lam = self.ev(a[2], st)
            n = self.list_len(seq)
            upto = self.coerce(self.ev(a[3], st), TInt, node).z if len(a) > 3 else n
            if self.mode == "UNROLL":
                acc = init
                for i in range(self.bound):
                    ii = z3.IntVal(i)
                    nxt = self.coerce(self.apply_fn(lam, [Val(TInt, acc), Val(seq.ty.elem, self.list_get(seq, ii))], st, node), TInt, node).z
                    acc = z3.If(z3.And(ii < n, ii < upto), nxt, acc)
                return Val(TInt, acc)
            depth = getattr(self, "_sum_depth", 0)
            kc = z3.Int("k!foldcanon%d" % depth)
            ac = z3.Int("acc!foldcanon%d" % depth)
            self._sum_depth = depth + 1
            self.binders.append((kc, z3.And(kc >= 0, kc < n)))
            try:
                step_c = self.coerce(self.apply_fn(lam, [Val(TInt, ac), Val(seq.ty.elem, self.list_get(seq, kc))], st, node), TInt, node).z
            finally:
                self.binders.pop()
                self._sum_depth = depth
            # the accumulator must stay a hole of the template too: abstract again treating `ac` like the index
            tpl2, targs2 = abstract_over2(step_c, kc, ac)
            if tpl2 is None:
                raise Unsupported("fold_int step is not abstractable", node)
            key = ("fold", tpl2, tuple(str(x.sort()) for x in targs2))
            if key not in self.sum_cache:
                self.sum_cache[key] = z3.Function("fold!%d" % len(self.sum_cache), *([x.sort() for x in targs2] + [z3.IntSort(), z3.IntSort(), z3.IntSort()]))
            F = self.sum_cache[key]
            site = (key, tuple(x.get_id() for x in targs2), init.get_id())
            if site not in self.sum_sites and not self.dry:
                self.sum_sites.add(site)
                facts = z3.And(F(*targs2, init, z3.IntVal(0)) == init,
                               _forall_pat([kc], z3.Implies(kc >= 0, F(*targs2, init, kc + 1) ==
                                                            z3.substitute(step_c, (ac, F(*targs2, init, kc)))),
                                           [F(*targs2, init, kc + 1)]))
                bvs = [bv for bv, _ in self.binders]
                if bvs:
                    facts = z3.ForAll(bvs, facts)
                self.assumptions.append(facts)
            return Val(TInt, F(*targs2, init, upto))
        if name == "flat_elems":
            # flat_elems(outer, lambda o: o.inner_list): the set of all elements of all inner lists
            outer = self.ev(a[0], st)
            lam = self.ev(a[1], st)
            if outer.ty.kind == "EmptyList":
                return Val(TSet(TRef(None)), z3.K(self.S.Ref, False))
            k = self.qvar("k")
            inner0 = self.apply_fn(lam, [Val(outer.ty.elem, self.list_get(outer, z3.IntVal(0)))], st, node)
            et = inner0.ty.elem
            x = self.qvar("x", self.S.sort(et))
            if self.mode == "UNROLL":
                sset = z3.K(self.S.sort(et), False)
                for i in range(self.bound):
                    inner = self.apply_fn(lam, [Val(outer.ty.elem, self.list_get(outer, z3.IntVal(i)))], st, node)
                    for j in range(self.bound):
                        sset = z3.If(z3.And(z3.IntVal(i) < self.list_len(outer), z3.IntVal(j) < self.list_len(inner)),
                                     z3.Store(sset, self.list_get(inner, z3.IntVal(j)), True), sset)
                return Val(TSet(et), sset)
            self.binders.append((k, z3.And(k >= 0, k < self.list_len(outer))))
            try:
                inner = self.apply_fn(lam, [Val(outer.ty.elem, self.list_get(outer, k))], st, node)
                mem = self.member(Val(et, x), inner, node)
            finally:
                self.binders.pop()
            return Val(TSet(et), z3.Lambda([x], z3.Exists([k], z3.And(k >= 0, k < self.list_len(outer), mem))))
        if name == "same":
            # identical value (same term in the logic): what a frame gives for an untouched attribute
            x, y = self.ev(a[0], st), self.ev(a[1], st)
            t = self.unify(x.ty, y.ty)
            if t.kind in ("Poison", "EmptyList"):
                return Val(TBool, self.val_eq(x, y, node))
            return Val(TBool, self.coerce(x, t, node).z == self.coerce(y, t, node).z)
        if name == "ghost_rel":
            # ghost_rel('name', a, b): an uninterpreted binary relation on objects (e.g. `is a descendant of`), constrained
            # only by what the preconditions say about it
            x, y = self.ev(a[1], st), self.ev(a[2], st)
            f = self.uf("ghostrel_" + a[0].value, x.z.sort(), y.z.sort(), z3.BoolSort())
            return Val(TBool, f(x.z, y.z))
        if name == "ghost_int":
            # ghost_int('name', obj): an uninterpreted integer-valued function of an object (e.g. a rank that
            # witnesses acyclicity); as a precondition it means "for every such function"
            v = self.ev(a[1], st)
            f = self.uf("ghost_" + a[0].value, v.z.sort(), z3.IntSort())
            return Val(TInt, f(v.z))
        if name == "is_perm":
            A, B = self.ev(a[0], st), self.ev(a[1], st)
            return Val(TBool, self.is_perm(A, B, st, node))
        if name in ("sorted_by", "stable_wrt"):
            R = self.ev(a[0], st)
            lam = self.ev(a[1], st)
            rev = False
            if len(a) > 2:
                rv = z3.simplify(self.truth(self.ev(a[2], st)))
                rev = is_true(rv)
            if R.ty.kind == "EmptyList":
                return Val(TBool, z3.BoolVal(True))
            n = self.list_len(R)
            E = lambda i: Val(R.ty.elem, self.list_get(R, i))
            keyf = lambda x: self.apply_fn(lam, [x], st, node)

            def le(x, y):
                kx, ky = keyf(x), keyf(y)
                if kx.ty.kind == "Tuple":
                    return self.lex_compare(ast.GtE() if rev else ast.LtE(), kx, ky, node)
                xx, yy, _ = self.num_unify(kx, ky, node)
                return (xx.z >= yy.z) if rev else (xx.z <= yy.z)
            if self.mode == "UNROLL":
                parts = []
                for i in range(self.bound):
                    for j in range(i + 1, self.bound):
                        parts.append(z3.Implies(z3.IntVal(j) < n, le(E(z3.IntVal(i)), E(z3.IntVal(j)))))
                return Val(TBool, z3.And(*parts) if parts else z3.BoolVal(True))
            j, k = self.qvar("j"), self.qvar("k")
            self.binders.append((j, z3.And(j >= 0, j < n)))
            self.binders.append((k, z3.And(k > j, k < n)))
            try:
                body = le(E(j), E(k))
            finally:
                self.binders.pop()
                self.binders.pop()
            return Val(TBool, z3.ForAll([j, k], z3.Implies(z3.And(j >= 0, j < k, k < n), body)))
        if name == "to_int":
            v = self.ev(a[0], st)
            return Val(TInt, z3.ToInt(self.coerce(v, TReal, node).z))
        if name == "to_real":
            return self.coerce(self.ev(a[0], st), TReal, node)
        if name == "seq_eq":
            return Val(TBool, self.val_eq(self.ev(a[0], st), self.ev(a[1], st), node))
        if name == "is_none":
            v = self.ev(a[0], st)
            return Val(TBool, self.identity(v, Val(TNone, self.S.none_val), st, node))
        if name == "typeis":
            v = self.ev(a[0], st)
            cls = a[1].value
            ids = [self.class_ids[c] for c in self.src.subclasses(cls)]
            return Val(TBool, z3.Or(*[self.cls_of(v.z) == i for i in ids]))
        if name == "unchanged":
            # unchanged('BaseTask.state') : whole field equal to its old value
            parts = []
            for arg in a:
                cls, attr = arg.value.split(".")
                key = self.field_key(cls, attr, node)
                parts.append(self.heap_arr(st, key) == self.heap_arr(self.old_heap, key))
            return Val(TBool, z3.And(*parts) if parts else z3.BoolVal(True))
        if name == "unchanged_except":
            # unchanged_except('BaseTask.state', obj_or_list): field unchanged outside the footprint
            cls, attr = a[0].value.split(".")
            key = self.field_key(cls, attr, node)
            fp = self.ev(a[1], st)
            new_arr, old_arr = self.heap_arr(st, key), self.heap_arr(self.old_heap, key)
            return Val(TBool, self.quantify_obj(cls, None, st, node, body_fn=lambda x: z3.Implies(
                z3.Not(self.in_footprint(x, fp, node)), z3.Select(new_arr, x) == z3.Select(old_arr, x))))
        if name == "elems":
            v = self.ev(a[0], st)
            if v.ty.kind == "EmptyList":
                raise Unsupported("elems of untyped empty list", node)
            x = self.qvar("x", self.S.sort(v.ty.elem))
            if self.mode == "UNROLL":
                s = z3.K(self.S.sort(v.ty.elem), False)
                for i in range(self.bound):
                    s = z3.If(z3.IntVal(i) < self.list_len(v), z3.Store(s, self.list_get(v, z3.IntVal(i)), True), s)
                return Val(TSet(v.ty.elem), s)
            return Val(TSet(v.ty.elem), z3.Lambda([x], self.member(Val(v.ty.elem, x), v, node)))
        raise Unsupported("spec form %s" % name, node)

    def is_perm(self, A, B, st, node=None):
        """A is a permutation of B.
        As a goal it is decided structurally: A must be (an if-then-else tree over) B itself or results of sorted()
        applied to permutations of B; as an assumption (callee postcondition) it provides the bijection."""
        if A.ty.kind == "EmptyList" or B.ty.kind == "EmptyList":
            return self.list_len(A) == self.list_len(B)
        if self.assuming_post:
            n = self.list_len(B)
            if self.mode == "UNROLL":
                parts = [self.list_len(A) == n]
                es = self.S.sort(A.ty.elem)
                cands = []
                for i in range(self.bound):
                    cands.append(self.list_get(B, z3.IntVal(i)))
                # equal multiplicities of every element of B (finite)
                for c in cands:
                    ca = z3.Sum([z3.If(z3.And(z3.IntVal(i) < n, self.list_get(A, z3.IntVal(i)) == c), 1, 0) for i in range(self.bound)])
                    cb = z3.Sum([z3.If(z3.And(z3.IntVal(i) < n, self.list_get(B, z3.IntVal(i)) == c), 1, 0) for i in range(self.bound)])
                    parts.append(ca == cb)
                return z3.And(*parts)
            pi = z3.Function("perm!%d" % next(self.counter), z3.IntSort(), z3.IntSort())
            pinv = z3.Function("pinv!%d" % next(self.counter), z3.IntSort(), z3.IntSort())
            k = self.qvar("k")
            return z3.And(self.list_len(A) == n,
                          _forall_pat([k], z3.Implies(z3.And(k >= 0, k < n), z3.And(
                              pi(k) >= 0, pi(k) < n, self.list_get(A, k) == self.list_get(B, pi(k)), pinv(pi(k)) == k)), [self.list_get(A, k)]),
                          _forall_pat([k], z3.Implies(z3.And(k >= 0, k < n), z3.And(
                              pinv(k) >= 0, pinv(k) < n, pi(pinv(k)) == k,
                              # consequence of the first clause at pinv(k), stated so that an element of B names its position in A
                              self.list_get(A, pinv(k)) == self.list_get(B, k))), [self.list_get(B, k)]))
        return self.perm_structural(A.z, B.z, 0)

    def perm_structural(self, az, bz, depth):
        if az.eq(bz):
            return z3.BoolVal(True)
        if depth > 12:
            return z3.BoolVal(False)
        if z3.is_app_of(az, z3.Z3_OP_ITE):
            c, x, y = az.children()
            return z3.If(c, self.perm_structural(x, bz, depth + 1), self.perm_structural(y, bz, depth + 1))
        src = self.sorted_from.get(az.get_id())
        if src is not None:
            return self.perm_structural(src, bz, depth + 1)
        return z3.BoolVal(False)

    def in_footprint(self, x, fp, node=None):
        if fp.ty.kind == "Ref":
            return x == fp.z
        if fp.ty.kind in ("List", "EmptyList", "Set"):
            return self.member(Val(TRef(None), x), fp, node) if fp.ty.kind != "EmptyList" else z3.BoolVal(False)
        raise Unsupported("footprint %r" % (fp.ty,), node)

    def quantify_coll(self, universal, coll, lam, st, node=None):
        k = coll.ty.kind
        if k == "Iter":
            n, g, _ = self.as_view(coll, st, node)
            fn = lambda i: self.truth(self.apply_fn(lam, [g(i)], st, node), node)
            return self._quant_idx(universal, n, fn)
        if k == "EmptyList":
            return z3.BoolVal(universal)
        if k == "Opt":
            return self.quantify_coll(universal, self.opt_val(coll), lam, st, node)
        if k == "List":
            n = self.list_len(coll)
            nparams = len(lam.py[0].args.args) if lam.ty.kind == "Lambda" else 1

            def fn(i):
                x = Val(coll.ty.elem, self.list_get(coll, i))
                args = [x] if nparams == 1 else [x, Val(TInt, i)]
                if nparams != 1 and coll.ty.elem.kind == "Tuple" and nparams == len(coll.ty.elem.elems):
                    args = [self.tuple_get(x, j) for j in range(nparams)]
                return self.truth(self.apply_fn(lam, args, st, node), node)
            return self._quant_idx(universal, n, fn)
        if k == "Set":
            es = self.S.sort(coll.ty.elem)
            if self.S.ref_consts is not None and coll.ty.elem.kind == "Ref":
                parts = []
                for c in self.S.ref_consts:
                    b = self.truth(self.apply_fn(lam, [Val(coll.ty.elem, c)], st, node), node)
                    parts.append(z3.Implies(z3.Select(coll.z, c), b) if universal else z3.And(z3.Select(coll.z, c), b))
                return (z3.And if universal else z3.Or)(*parts)
            x = self.qvar("x", es)
            self.binders.append((x, z3.Select(coll.z, x)))
            try:
                b = self.truth(self.apply_fn(lam, [Val(coll.ty.elem, x)], st, node), node)
            finally:
                self.binders.pop()
            if universal:
                return z3.ForAll([x], z3.Implies(z3.Select(coll.z, x), b))
            return z3.Exists([x], z3.And(z3.Select(coll.z, x), b))
        raise Unsupported("quantification over %r" % (coll.ty,), node)

    def _quant_idx(self, universal, n, fn, lo=0):
        if self.mode == "UNROLL":
            return self.forall_idx(n, fn, lo) if universal else self.exists_idx(n, fn, lo)
        k = self.qvar()
        self.binders.append((k, z3.And(k >= lo, k < n)))
        try:
            b = zbool(fn(k))
        finally:
            self.binders.pop()
        if universal:
            return z3.ForAll([k], z3.Implies(z3.And(k >= lo, k < n), b))
        return z3.Exists([k], z3.And(k >= lo, k < n, b))

    def quantify_int(self, universal, lo, hi, lam, st, node=None):
        fn = lambda k: self.truth(self.apply_fn(lam, [Val(TInt, k)], st, node), node)
        if self.mode == "UNROLL":
            parts = []
            for i in range(-1, self.bound + 2):
                k = z3.IntVal(i)
                c = z3.And(k >= lo, k < hi)
                parts.append(z3.Implies(c, zbool(fn(k))) if universal else z3.And(c, zbool(fn(k))))
            return (z3.And if universal else z3.Or)(*parts)
        return self._quant_idx(universal, hi, fn, lo)

    def quantify_obj(self, cls, lam, st, node=None, body_fn=None):
        if body_fn is None:
            body_fn = lambda x: self.truth(self.apply_fn(lam, [Val(TRef(cls), x)], st, node), node)
        if self.S.ref_consts is not None:
            if getattr(self, "ref_class", None) is not None:
                return z3.And(*[zbool(body_fn(c)) for c in self.consts_of_class(cls)])
            return z3.And(*[zbool(body_fn(c)) for c in [self.S.null] + list(self.S.ref_consts)])
        x = self.qvar("o", self.S.Ref)
        self.binders.append((x, z3.BoolVal(True)))
        try:
            b = zbool(body_fn(x))
        finally:
            self.binders.pop()
        return z3.ForAll([x], b)

    # ------------------------------------------------------------------ builtins
    def bi_len(self, args, kwargs, st, node):
        v = args[0]
        k = v.ty.kind
        if k in ("List", "EmptyList"):
            return Val(TInt, self.list_len(v))
        if k == "Iter":
            return Val(TInt, self.list_len(self.realize(v, st, node)))
        if k == "Opt" and v.ty.t.kind == "List":
            self.oblige("safe", "len-of-none", z3.Not(self.opt_is_none(v)), st, node)
            return Val(TInt, self.list_len(self.opt_val(v)))
        if k == "Set":
            # cardinality: only emptiness is modelled precisely
            card = self.uf("card_%s" % str(v.z.sort()).replace(" ", "_"), v.z.sort(), z3.IntSort())
            c = card(v.z)
            x = self.qvar("x", self.S.sort(v.ty.elem))
            self.assume(c >= 0, st)
            wit = self.uf("cardwit_%s" % str(v.z.sort()).replace(" ", "_"), v.z.sort(), self.S.sort(v.ty.elem))
            self.assume(z3.Implies(c > 0, z3.Select(v.z, wit(v.z))), st)
            if self.S.ref_consts is not None and v.ty.elem.kind == "Ref":
                self.assume(z3.Implies(c == 0, z3.And(*[z3.Not(z3.Select(v.z, cc)) for cc in [self.S.null] + list(self.S.ref_consts)])), st)
            else:
                self.assume(z3.Implies(c == 0, z3.ForAll([x], z3.Not(z3.Select(v.z, x)))), st)
            self.trusted.add("len(set): only `== 0` / `> 0` is modelled (non-negative, 0 iff empty)")
            return Val(TInt, c)
        raise Unsupported("len(%r)" % (v.ty,), node)

    def bi_list(self, args, kwargs, st, node):
        if not args:
            return Val(T_EMPTY, None)
        v = self.realize(args[0], st, node)
        return Val(v.ty, v.z)      # a copy: alias dropped

    def bi_tuple(self, args, kwargs, st, node):
        return self.bi_list(args, kwargs, st, node)

    def bi_set(self, args, kwargs, st, node):
        if not args:
            return Val(TSet(TRef(None)), z3.K(self.S.Ref, False), py="emptyset")
        src = args[0]
        if src.ty.kind == "Set":
            return src
        if src.ty.kind == "Iter" and src.py[0] == "filter" and self.mode != "UNROLL":
            return self.set_of_filter(src, st, node)
        lst = self.realize(src, st, node)
        if lst.ty.kind == "EmptyList":
            return Val(TSet(TRef(None)), z3.K(self.S.Ref, False), py="emptyset")
        et = lst.ty.elem
        es = self.S.sort(et)
        if self.mode == "UNROLL":
            self.assume(self.list_len(lst) <= self.bound, st)       # unwinding assumption
            s = z3.K(es, False)
            for i in range(self.bound):
                s = z3.If(z3.IntVal(i) < self.list_len(lst), z3.Store(s, self.list_get(lst, z3.IntVal(i)), True), s)
            return Val(TSet(et), s)
        s = self.fresh(z3.ArraySort(es, z3.BoolSort()), "set")
        n = self.list_len(lst)
        self.assume(self.forall_idx(n, lambda k: z3.Select(s, self.list_get(lst, k))), st)
        x = self.qvar("x", es)
        idx = z3.Function("setidx!%d" % next(self.counter), es, z3.IntSort())
        self.assume(z3.ForAll([x], z3.Implies(z3.Select(s, x), z3.And(idx(x) >= 0, idx(x) < n, self.list_get(lst, idx(x)) == x))), st)
        return Val(TSet(et), s)

    def set_of_filter(self, v, st, node=None):
        """set(filter(pred, L)) = {x in L | pred(x)} stated directly (no order-embedding needed for a set)"""
        _, fn, srcv = v.py
        lst = self.realize(srcv, st, node)
        if lst.ty.kind == "EmptyList":
            return Val(TSet(TRef(None)), z3.K(self.S.Ref, False), py="emptyset")
        et = lst.ty.elem
        es = self.S.sort(et)
        n = self.list_len(lst)
        s = self.fresh(z3.ArraySort(es, z3.BoolSort()), "fset")
        k = self.qvar()
        self.binders.append((k, z3.And(k >= 0, k < n)))
        try:
            pk = self.truth(self.apply_fn(fn, [Val(et, self.list_get(lst, k))], st, node), node)
        finally:
            self.binders.pop()
        self.assume(_forall_pat([k], z3.Implies(z3.And(k >= 0, k < n), z3.Select(s, self.list_get(lst, k)) == pk), [self.list_get(lst, k)]), st)
        x = self.qvar("x", es)
        idx = z3.Function("fsetidx!%d" % next(self.counter), es, z3.IntSort())
        self.assume(_forall_pat([x], z3.Implies(z3.Select(s, x), z3.And(idx(x) >= 0, idx(x) < n, self.list_get(lst, idx(x)) == x)), [z3.Select(s, x)]), st)
        self.trusted.add("set(filter(pred, L)) = the set of elements of L satisfying pred")
        return Val(TSet(et), s)

    def bi_filter(self, args, kwargs, st, node):
        return Val(T_ITER, None, py=("filter", args[0], args[1]))

    def bi_map(self, args, kwargs, st, node):
        if len(args) != 2:
            raise Unsupported("map with several iterables", node)
        src = args[1]
        if src.ty.kind == "Set":
            src = self.set_to_list(src, st, node)
        return Val(T_ITER, None, py=("map", args[0], src))

    def bi_reversed(self, args, kwargs, st, node):
        src = args[0]
        if src.ty.kind == "Iter":
            src = self.realize(src, st, node)
        return Val(T_ITER, None, py=("reversed", src))

    def bi_zip(self, args, kwargs, st, node):
        if len(args) != 2:
            raise Unsupported("zip of %d iterables" % len(args), node)
        return Val(T_ITER, None, py=("zip", args[0], args[1]))

    def bi_enumerate(self, args, kwargs, st, node):
        return Val(T_ITER, None, py=("enumerate", args[0]))

    def bi_range(self, args, kwargs, st, node):
        if len(args) == 1:
            lo, hi = z3.IntVal(0), self.coerce(args[0], TInt, node).z
        elif len(args) == 2:
            lo, hi = self.coerce(args[0], TInt, node).z, self.coerce(args[1], TInt, node).z
        else:
            raise Unsupported("range with step", node)
        return Val(T_ITER, None, py=("range", lo, hi))

    def bi_all(self, args, kwargs, st, node):
        n, g, _ = self.as_view(args[0], st, node)
        return Val(TBool, self._quant_idx(True, n, lambda i: self.truth(g(i), node)))

    def bi_any(self, args, kwargs, st, node):
        n, g, _ = self.as_view(args[0], st, node)
        return Val(TBool, self._quant_idx(False, n, lambda i: self.truth(g(i), node)))

    def bi_int(self, args, kwargs, st, node):
        v = args[0]
        if v.ty.kind in ("Int", "Enum"):
            return Val(TInt, v.z)
        if v.ty.kind == "Bool":
            return self.coerce(v, TInt)
        if v.ty.kind == "Real":
            # int() truncates toward zero
            f = z3.ToInt(v.z)
            return Val(TInt, z3.If(v.z >= 0, f, z3.If(z3.ToReal(f) == v.z, f, f + 1)))
        raise Unsupported("int(%r)" % (v.ty,), node)

    def bi_float(self, args, kwargs, st, node):
        v = args[0]
        if v.ty.kind == "Str":
            # float("inf")
            lit = [t for t, c in self.S._lits.items() if c.eq(v.z)]
            if lit and lit[0] in ("inf", "-inf"):
                inf = self.uf("pos_infinity", z3.RealSort())
                self.trusted.add("float('inf') is a real constant larger than every model value (A1)")
                return Val(TReal, inf() if lit[0] == "inf" else -inf(), py="inf")
            raise Unsupported("float(str)", node)
        return self.coerce(v, TReal, node)

    def bi_bool(self, args, kwargs, st, node):
        return Val(TBool, self.truth(args[0], node))

    def bi_str(self, args, kwargs, st, node):
        v = args[0]
        if v.ty.kind == "Str":
            return v
        f = self.uf("str_of_%s" % str(v.z.sort()).replace(" ", "_"), v.z.sort(), self.S.Str)
        return Val(TStr, f(v.z))

    def bi_abs(self, args, kwargs, st, node):
        v = args[0]
        return Val(v.ty, z3.If(v.z >= 0, v.z, -v.z))

    def bi_print(self, args, kwargs, st, node):
        return Val(TNone, self.S.none_val)

    def bi_isinstance(self, args, kwargs, st, node):
        v, c = args
        if c.ty.kind != "Class" or v.ty.kind != "Ref":
            raise Unsupported("isinstance", node)
        ids = [self.class_ids[x] for x in self.src.subclasses(c.py)]
        if v.ty.cls is not None and self.src.is_subclass(v.ty.cls, c.py):
            return Val(TBool, z3.BoolVal(True))
        return Val(TBool, z3.Or(*[self.cls_of(v.z) == i for i in ids]))

    def bi_min(self, args, kwargs, st, node):
        return self._minmax(args, kwargs, st, node, False)

    def bi_max(self, args, kwargs, st, node):
        return self._minmax(args, kwargs, st, node, True)

    def _minmax(self, args, kwargs, st, node, is_max):
        if len(args) >= 2:
            acc = args[0]
            for b in args[1:]:
                x, y, t = self.num_unify(acc, b, node)
                acc = Val(t, z3.If((x.z >= y.z) if is_max else (x.z <= y.z), x.z, y.z))
            return acc
        coll = args[0]
        key = kwargs.get("key")
        keyf = (lambda x: self.apply_fn(key, [x], st, node)) if key is not None else (lambda x: x)
        if coll.ty.kind == "Set":
            es = self.S.sort(coll.ty.elem)
            x = self.qvar("x", es)
            nonempty = z3.Exists([x], z3.Select(coll.z, x)) if self.S.ref_consts is None else \
                z3.Or(*[z3.Select(coll.z, c) for c in self.S.ref_consts])
            self.oblige("safe", "max-of-empty", nonempty, st, node)
            r = self.fresh_val(coll.ty.elem, "argmax")
            self.assume(z3.Select(coll.z, r.z), st)
            lam = Val(T_LAMBDA, None, py=None)
            kr = keyf(r)

            def dom(y):
                ky = keyf(Val(coll.ty.elem, y))
                a, b, _ = self.num_unify(ky, kr, node)
                return (a.z <= b.z) if is_max else (a.z >= b.z)
            if self.S.ref_consts is not None and coll.ty.elem.kind == "Ref":
                for c in self.S.ref_consts:
                    self.assume(z3.Implies(z3.Select(coll.z, c), dom(c)), st)
            else:
                self.binders.append((x, z3.Select(coll.z, x)))
                try:
                    d = dom(x)
                finally:
                    self.binders.pop()
                self.assume(z3.ForAll([x], z3.Implies(z3.Select(coll.z, x), d)), st)
            self.trusted.add("max/min(collection, key): some element with extremal key (ties: unspecified element)")
            return r
        n, g, et = self.as_view(coll, st, node)
        self.oblige("safe", "max-of-empty", n > 0, st, node)
        if et is None:
            et = self.elem_type_of_view(n, g, st)
        r = self.fresh_val(et, "argmax")
        kr = keyf(r)
        w = self.fresh(z3.IntSort(), "argidx")
        self.assume(z3.And(w >= 0, w < n), st)
        self.assume(self.val_eq(g(w), r), st)

        def dom(i):
            a, b, _ = self.num_unify(keyf(g(i)), kr, node)
            return (a.z <= b.z) if is_max else (a.z >= b.z)
        self.assume(self._quant_idx(True, n, dom), st)
        self.trusted.add("max/min(collection, key): some element with extremal key (ties: unspecified element)")
        return r

    def bi_sum(self, args, kwargs, st, node):
        src = args[0]
        if src.ty.kind == "Iter" and src.py[0] == "values":
            d = src.py[1]
            sd = self.S.sort(d.ty)
            if self.mode == "UNROLL" and self.S.str_consts is not None:
                acc = z3.RealVal(0)
                for c in self.S.str_consts:
                    acc = acc + z3.If(z3.Select(sd.dom(d.z), c), z3.Select(sd.val(d.z), c), z3.RealVal(0))
                return Val(d.ty.v, acc)
            self.trusted.add("sum(dict.values()) is an uninterpreted function of the dict value")
            return Val(d.ty.v, self.uf("dict_sum_%s" % sd, sd, self.S.sort(d.ty.v))(d.z))
        n, g, et = self.as_view(src, st, node)
        if et is None:
            et = self.elem_type_of_view(n, g, st)
        rt = TReal if et.kind in ("Real",) else TInt
        if self.mode == "UNROLL":
            self.assume(n <= self.bound, st)       # unwinding assumption
            acc = z3.RealVal(0) if rt == TReal else z3.IntVal(0)
            for i in range(self.bound):
                ii = z3.IntVal(i)
                self.extra_path.append(ii < n)        # obligations inside the summand hold only for indices in range
                try:
                    term = self.coerce(g(ii), rt, node).z
                finally:
                    self.extra_path.pop()
                acc = z3.If(ii < n, acc + term, acc)
            return Val(rt, acc)
        ps, bvs = self.prefix_sum_fn(n, g, rt, st, node)
        return Val(rt, ps(*bvs, n))

    def prefix_sum_fn(self, n, g, rt, st, node=None):
        """prefix-sum function of a sequence, axiomatised by its unfolding (DESIGN 2.4).

        The summand at a canonical index k is abstracted over its maximal k-free sub-terms (heap arrays, the list,
        captured values): psum_T(args..., k) where T is the resulting template.  A sum in the code and the same sum
        in a contract, or the same sum for a bound object and for a concrete one, are then applications of one
        function symbol to arguments that are equal modulo the theory."""
        self.trusted.add("sum(L) = left fold of + from 0 (prefix-sum function with one-step unfolding)")
        depth = getattr(self, "_sum_depth", 0)
        kc = z3.Int("k!sumcanon%d" % depth)
        self._sum_depth = depth + 1
        self.binders.append((kc, z3.And(kc >= 0, kc < n)))
        self.spec += 1
        try:
            term_c = self.coerce(g(kc), rt, node).z
        finally:
            self.spec -= 1
            self.binders.pop()
            self._sum_depth = depth
        template, args = abstract_over(term_c, kc)
        rs = self.S.sort(rt)
        if template is None:
            # not abstractable (quantifier over the index): one function per term, parameterised by the binders
            args = [bv for bv, _ in self.binders]
            key = ("opaque", term_c.get_id(), rt.kind)
        else:
            key = (template, rt.kind, tuple(str(a.sort()) for a in args))
        if key not in self.sum_cache:
            name = "psum!%d" % len(self.sum_cache)
            self.sum_cache[key] = z3.Function(name, *([a.sort() for a in args] + [z3.IntSort(), rs]))
        ps = self.sum_cache[key]
        site = (key, tuple(a.get_id() for a in args))
        if site not in self.sum_sites:
            self.sum_sites.add(site)
            zero = z3.RealVal(0) if rt == TReal else z3.IntVal(0)
            body0 = ps(*args, z3.IntVal(0)) == zero
            try:
                step = _forall_pat([kc], z3.Implies(kc >= 0, ps(*args, kc + 1) == ps(*args, kc) + term_c), [ps(*args, kc + 1)])
            except z3.Z3Exception:
                step = z3.ForAll([kc], z3.Implies(kc >= 0, ps(*args, kc + 1) == ps(*args, kc) + term_c))
            g0 = z3.substitute(term_c, (kc, z3.IntVal(0)))
            g1 = z3.substitute(term_c, (kc, z3.IntVal(1)))
            unf = z3.And(ps(*args, z3.IntVal(1)) == zero + g0, ps(*args, z3.IntVal(2)) == zero + g0 + g1)
            fact = z3.And(body0, step, unf)
            bvs = [bv for bv, _ in self.binders]
            if bvs:
                fact = z3.ForAll(bvs, fact)
            if not self.dry:
                self.assumptions.append(fact)
        return ps, args

    def bi_sorted(self, args, kwargs, st, node):
        src = self.realize(args[0], st, node)
        if src.ty.kind == "EmptyList":
            return src
        key = kwargs.get("key")
        rev = kwargs.get("reverse")
        reverse = False
        if rev is not None:
            rs = z3.simplify(self.truth(rev))
            if is_true(rs):
                reverse = True
            elif not is_false(rs):
                raise Unsupported("sorted(reverse=<symbolic>)", node)
        keyf = (lambda x: self.apply_fn(key, [x], st, node)) if key is not None else (lambda x: x)
        n = self.list_len(src)
        lt = src.ty
        gst = st
        if key is None and self.mode != "UNROLL" and lt.elem.kind in ("Int", "Real"):
            # a keyless sort of numbers has exactly one result: a canonical function of the argument list,
            # axiomatised once for all lists (permutation + order)
            return self.canonical_sorted(src, reverse)
        r = self.fresh_val(lt, "sorted")
        self.sorted_from[r.z.get_id()] = src.z
        self._keep_alive.append(r.z)
        self.trusted.add("sorted(): stable sort, result is a permutation of the argument ordered by key (A5)")
        self.assume(self.list_len(r) == n, gst)

        def le(a, b):
            ka, kb = keyf(a), keyf(b)
            if ka.ty.kind == "Tuple":
                return self.lex_compare(ast.GtE() if reverse else ast.LtE(), ka, kb, node)
            x, y, _ = self.num_unify(ka, kb, node)
            return (x.z >= y.z) if reverse else (x.z <= y.z)

        def keq(a, b):
            return self.val_eq(keyf(a), keyf(b), node)
        E = lambda L, i: Val(lt.elem, self.list_get(L, i))
        if self.mode == "UNROLL":
            B = self.bound
            self.assume(n <= B, st)       # unwinding assumption (bounded stand-in)
            perm = [self.fresh(z3.IntSort(), "perm") for _ in range(B)]
            for i in range(B):
                ii = z3.IntVal(i)
                self.assume(z3.Implies(ii < n, z3.And(perm[i] >= 0, perm[i] < n, *[
                    z3.Implies(perm[i] == j, self.list_get(r, ii) == self.list_get(src, z3.IntVal(j))) for j in range(B)])), st)
            for i in range(B):
                ii = z3.IntVal(i)
                for j in range(i + 1, B):
                    jj = z3.IntVal(j)
                    st.path.append(jj < n)       # keys are only evaluated for positions inside the list
                    try:
                        body = z3.And(perm[i] != perm[j], le(E(r, ii), E(r, jj)),
                                      z3.Implies(keq(E(r, ii), E(r, jj)), perm[i] < perm[j]))
                    finally:
                        st.path.pop()
                    self.assume(z3.Implies(jj < n, body), st)
            return r
        bvs = [b for b, _ in self.binders]
        pi = z3.Function("perm!%d" % next(self.counter), *([b.sort() for b in bvs] + [z3.IntSort(), z3.IntSort()]))
        pinv = z3.Function("pinv!%d" % next(self.counter), *([b.sort() for b in bvs] + [z3.IntSort(), z3.IntSort()]))
        j, k = self.qvar("j"), self.qvar("k")
        self.assume(_forall_pat([k], z3.Implies(z3.And(k >= 0, k < n), z3.And(
            pi(*bvs, k) >= 0, pi(*bvs, k) < n, self.list_get(r, k) == self.list_get(src, pi(*bvs, k)),
            pinv(*bvs, pi(*bvs, k)) == k)), [self.list_get(r, k)]), gst)
        self.assume(_forall_pat([k], z3.Implies(z3.And(k >= 0, k < n), z3.And(
            pinv(*bvs, k) >= 0, pinv(*bvs, k) < n, pi(*bvs, pinv(*bvs, k)) == k)), [self.list_get(src, k)]), gst)
        self.binders.append((j, z3.And(j >= 0, j < n)))
        self.binders.append((k, z3.And(k > j, k < n)))
        try:
            ordc = le(E(r, j), E(r, k))
            stab = z3.Implies(keq(E(r, j), E(r, k)), pi(*bvs, j) < pi(*bvs, k))
        finally:
            self.binders.pop()
            self.binders.pop()
        self.assume(z3.ForAll([j, k], z3.Implies(z3.And(j >= 0, j < k, k < n), z3.And(ordc, stab))), gst)
        self.last_sorted = (r, src, pi, pinv)
        return r

    def canonical_sorted(self, src, reverse):
        lt = src.ty
        ls = src.z.sort()
        tag = "%s_%s" % ("desc" if reverse else "asc", str(ls))
        sf = self.uf("sorted_" + tag, ls, ls)
        pi = self.uf("sortperm_" + tag, ls, z3.IntSort(), z3.IntSort())
        pinv = self.uf("sortpinv_" + tag, ls, z3.IntSort(), z3.IntSort())
        r = Val(lt, sf(src.z))
        if ("sorted-axioms", tag) not in self.sum_sites:
            self.sum_sites.add(("sorted-axioms", tag))
            S = z3.Const("S!srt", ls)
            j, k = z3.Ints("j!srt k!srt")
            SV, RV = Val(lt, S), Val(lt, sf(S))
            n = self.list_len(SV)
            ge = (lambda a, b: a >= b) if reverse else (lambda a, b: a <= b)
            self.assumptions += [
                z3.ForAll([S], self.list_len(RV) == n, patterns=[sf(S)]),
                z3.ForAll([S, k], z3.Implies(z3.And(k >= 0, k < n), z3.And(
                    pi(S, k) >= 0, pi(S, k) < n, self.list_get(RV, k) == self.list_get(SV, pi(S, k)), pinv(S, pi(S, k)) == k)),
                    patterns=[self.list_get(RV, k)]),
                z3.ForAll([S, k], z3.Implies(z3.And(k >= 0, k < n), z3.And(
                    pinv(S, k) >= 0, pinv(S, k) < n, pi(S, pinv(S, k)) == k)),
                    patterns=[pinv(S, k)]),
                z3.ForAll([S, j, k], z3.Implies(z3.And(j >= 0, j < k, k < n), ge(self.list_get(RV, j), self.list_get(RV, k)))),
            ]
        self.sorted_from[r.z.get_id()] = src.z
        self._keep_alive.append(r.z)
        self.trusted.add("sorted(): stable sort, result is a permutation of the argument ordered by key (A5)")
        return r

    def bi_super(self, args, kwargs, st, node):
        base = [b for b in self.src.classes[self.cur_cls].bases if b in self.src.classes]
        if not base:
            raise Unsupported("super() without model base", node)
        selfv = st.env.get("self")
        return Val(selfv.ty.__class__(base[0]), selfv.z, py="super")

    def bi_Exception(self, args, kwargs, st, node):
        return Val(TNone, self.S.none_val, py="exception")

    # ------------------------------------------------------------------ library modules
    def module_call(self, path, args, kwargs, st, node=None):
        if path in ("np.random.seed", "warnings.warn"):
            return Val(TNone, self.S.none_val)
        if path == "np.random.normal":
            mean, sd = args[0], args[1]
            m = self.coerce(mean, TReal, node).z
            s = self.coerce(sd, TReal, node).z
            r = self.fresh(z3.RealSort(), "normal")
            self.assume(z3.Implies(s == 0, r == m), st)
            self.trusted.add("np.random.normal(mean, 0) == mean (deterministic skills, WF.num)")
            return Val(TReal, r)
        if path == "np.random.rand":
            r = self.fresh(z3.RealSort(), "rand")
            self.assume(z3.And(r >= 0, r < 1), st)
            return Val(TReal, r)
        if path == "itertools.chain.from_iterable":
            return self.flatten(args[0], st, node)
        if path == "uuid.uuid4":
            return self.fresh_val(TStr, "uuid")
        if path == "datetime.timedelta":
            if kwargs and set(kwargs) <= {"days", "hours", "minutes", "seconds"} and not args:
                mult = {"days": 86400, "hours": 3600, "minutes": 60, "seconds": 1}
                tot = z3.RealVal(0)
                for k2, v in kwargs.items():
                    tot = tot + self.coerce(v, TReal, node).z * mult[k2]
                return Val(TDelta, tot)
            raise Unsupported("timedelta(...)", node)
        raise Unsupported("library call %s" % path, node)

    def flatten(self, outer, st, node=None):
        """itertools.chain.from_iterable(list of lists) -> concatenation"""
        lst = self.realize(outer, st, node)
        if lst.ty.kind == "EmptyList":
            return lst
        if lst.ty.elem.kind != "List":
            raise Unsupported("flatten of %r" % (lst.ty,), node)
        inner_t = lst.ty.elem
        n = self.list_len(lst)
        if self.mode == "UNROLL":
            arr = self.empty_array(self.S.sort(inner_t.elem))
            cnt = z3.IntVal(0)
            for i in range(self.bound):
                sub = Val(inner_t, self.list_get(lst, z3.IntVal(i)))
                m = self.list_len(sub)
                for j in range(self.bound):
                    c = z3.And(z3.IntVal(i) < n, z3.IntVal(j) < m)
                    arr = z3.If(c, z3.Store(arr, cnt, self.list_get(sub, z3.IntVal(j))), arr)
                    cnt = z3.If(c, cnt + 1, cnt)
            return self.mk_list(inner_t, cnt, arr)
        self.trusted.add("itertools.chain.from_iterable: concatenation (offset function with one-step unfolding)")
        r = self.fresh_val(inner_t, "flat")
        off = z3.Function("off!%d" % next(self.counter), z3.IntSort(), z3.IntSort())
        k, j = self.qvar("k"), self.qvar("j")
        sub = lambda i: Val(inner_t, self.list_get(lst, i))
        self.assume(off(0) == 0, st)
        self.assume(z3.ForAll([k], z3.Implies(z3.And(k >= 0, k < n), z3.And(self.list_len(sub(k)) >= 0,
                    off(k + 1) == off(k) + self.list_len(sub(k))))), st)
        self.assume(self.list_len(r) == off(n), st)
        # the position of an inner element lies inside the result (off is a sum of non-negative lengths: by induction, stated here)
        self.assume(_forall_pat([k, j], z3.Implies(z3.And(k >= 0, k < n, j >= 0, j < self.list_len(sub(k))),
                    z3.And(self.list_get(r, off(k) + j) == self.list_get(sub(k), j), off(k) >= 0, off(k) + j < self.list_len(r))),
                    [self.list_get(sub(k), j)]), st)
        # every element of the result comes from some inner list
        ow = z3.Function("flat_outer!%d" % next(self.counter), z3.IntSort(), z3.IntSort())
        iw = z3.Function("flat_inner!%d" % next(self.counter), z3.IntSort(), z3.IntSort())
        self.assume(_forall_pat([k], z3.Implies(z3.And(k >= 0, k < self.list_len(r)), z3.And(
            ow(k) >= 0, ow(k) < n, iw(k) >= 0, iw(k) < self.list_len(sub(ow(k))), k == off(ow(k)) + iw(k),
            self.list_get(r, k) == self.list_get(sub(ow(k)), iw(k)))), [self.list_get(r, k)]), st)
        return r

    # ------------------------------------------------------------------ container methods
    def container_method(self, base, attr, args, kwargs, st, node=None):
        k = base.ty.kind
        if k == "Dict":
            s = self.S.sort(base.ty)
            if attr == "get":
                key = self.coerce(args[0], base.ty.k, node).z
                dflt = self.coerce(args[1], base.ty.v, node) if len(args) > 1 else None
                if dflt is None:
                    raise Unsupported("dict.get without default", node)
                return Val(base.ty.v, z3.If(z3.Select(s.dom(base.z), key), z3.Select(s.val(base.z), key), dflt.z))
            if attr == "values":
                return Val(T_ITER, None, py=("values", base))
            raise Unsupported("dict.%s" % attr, node)
        if k == "Kwargs":
            if attr == "get":
                name = [t for t, c in self.S._lits.items() if args and args[0].ty.kind == "Str" and c.eq(args[0].z)]
                if not name:
                    raise Unsupported("kwargs.get with a non-literal key", node)
                if name[0] in base.py:
                    return base.py[name[0]]
                return args[1] if len(args) > 1 else Val(TNone, self.S.none_val)
            raise Unsupported("kwargs.%s" % attr, node)
        if k == "Date" and attr == "strftime":
            self.trusted.add("strftime: uninterpreted injective rendering of a datetime")
            f = self.uf("strftime", self.S.Date, self.S.Str, self.S.Str)
            return Val(TStr, f(base.z, args[0].z))
        if k == "Delta" and attr == "total_seconds":
            return Val(TReal, base.z)
        if k == "Str" and attr == "format":
            return self.fresh_val(TStr, "fmt")
        if k in ("List", "EmptyList"):
            if attr == "index":
                x = args[0]
                i = self.fresh(z3.IntSort(), "index")
                self.oblige("safe", "index-of-missing", self.member(x, base, node), st, node)
                if base.ty.kind == "EmptyList":
                    raise Unsupported("index in empty list", node)
                self.assume(z3.And(i >= 0, i < self.list_len(base), self.val_eq(Val(base.ty.elem, self.list_get(base, i)), x)), st)
                self.assume(self.forall_idx(i, lambda j: z3.Not(self.val_eq(Val(base.ty.elem, self.list_get(base, j)), x))), st)
                return Val(TInt, i)
            if attr == "count":
                raise Unsupported("list.count", node)
        raise Unsupported("method %s of %r" % (attr, base.ty), node)

    def mutate(self, recv_node, recv, attr, args, st, node=None):
        """in-place mutation: compute the new container value and store it back through the lvalue"""
        k = recv.ty.kind
        ret = Val(TNone, self.S.none_val)
        if k == "Opt":
            self.oblige("safe", "none-mutate.%s" % attr, z3.Not(self.opt_is_none(recv)), st, node)
            inner = self.opt_val(recv)
            new, ret = self.mutate_value(inner, attr, args, st, node)
            new = self.coerce(new, recv.ty, node)
        else:
            new, ret = self.mutate_value(recv, attr, args, st, node)
        self.store_back(recv_node, recv, new, st, node)
        return ret

    def mutate_value(self, recv, attr, args, st, node=None):
        k = recv.ty.kind
        none = Val(TNone, self.S.none_val)
        if k == "Set":
            if attr == "add":
                x = args[0]
                ety = recv.ty.elem
                if recv.py == "emptyset" and x.ty.kind == "Ref":
                    ety = x.ty
                return Val(TSet(ety), z3.Store(recv.z, self.coerce(x, ety, node).z, True)), none
            if attr == "update":
                o = args[0]
                if o.ty.kind != "Set":
                    o = self.bi_set([o], {}, st, node)
                ety = recv.ty.elem if recv.py != "emptyset" else o.ty.elem
                x = self.qvar("x", self.S.sort(ety))
                if self.mode == "UNROLL":
                    u = z3.Lambda([x], z3.Or(z3.Select(recv.z, x), z3.Select(o.z, x)))
                    return Val(TSet(ety), u), none
                u = self.fresh(recv.z.sort(), "union")
                self.assume(z3.ForAll([x], z3.Select(u, x) == z3.Or(z3.Select(recv.z, x), z3.Select(o.z, x))), st)
                return Val(TSet(ety), u), none
            raise Unsupported("set.%s" % attr, node)
        if k == "Dict":
            raise Unsupported("dict mutation .%s" % attr, node)
        # lists
        if attr == "append":
            if len(args) != 1:
                self.oblige("safe", "arity.list.append", False, st, node)
                raise Unsupported("list.append arity", node)
            x = args[0]
            if k == "EmptyList":
                if x.ty.kind in ("EmptyList", "None"):
                    raise Unsupported("append of untyped value to untyped list", node)
                lt = TList(x.ty)
                recv = self.coerce(recv, lt, node)
            else:
                lt = recv.ty
                t = self.unify(lt.elem, x.ty)
                if t.kind == "Poison":
                    raise Unsupported("append %r to %r" % (x.ty, lt), node)
                if t != lt.elem:
                    lt = TList(t)
                    recv = self.coerce(recv, lt, node)
            n = self.list_len(recv)
            stored = z3.Store(self.list_arr(recv), n, self.coerce(x, lt.elem, node).z)
            if self.mode == "INV" and lt.elem.kind == "Ref" and not self.dry:
                # same list, named: `old[j] == new[j]` below is a consequence of the store, stated with the OLD list as trigger so
                # that a membership witness found in the old list is carried over to the new one by e-matching
                arr = self.fresh(stored.sort(), "app")
                self.assume(arr == stored, st)
                self.assume(self.forall_idx(n, lambda j: z3.Select(self.list_arr(recv), j) == z3.Select(arr, j)), st)
                stored = arr
            new = self.mk_list(lt, n + 1, stored)
            return new, none
        if attr == "extend":
            o = self.realize(args[0], st, node)
            return self.list_concat(recv, o, node), none
        if attr == "insert":
            if len(args) != 2:
                # TypeError at run time: a refuted safety obligation; the path ends here (as for `raise`)
                self.oblige("safe", "arity.list.insert-takes-2-arguments", False, st, node)
                st.ret = zor(st.ret, self.live(st))
                return recv, none
            if k == "EmptyList":
                recv = self.coerce(recv, TList(args[1].ty), node)
            lt = recv.ty
            i = self.coerce(args[0], TInt, node).z
            x = self.coerce(args[1], lt.elem, node).z
            n = self.list_len(recv)
            pos = z3.If(i < 0, z3.If(i + n < 0, 0, i + n), z3.If(i > n, n, i))
            r = self.fresh_val(lt, "ins")
            self.assume(self.list_len(r) == n + 1, st)
            self.assume(self.forall_idx(n + 1, lambda j: self.list_get(r, j) == z3.If(
                j < pos, self.list_get(recv, j), z3.If(j == pos, x, self.list_get(recv, j - 1)))), st)
            self.trusted.add("list.insert(i, x): clamps i to [0, len]; list.pop(i): deletes position i")
            return r, none
        if attr == "pop":
            if k == "EmptyList":
                self.oblige("safe", "pop-from-empty", False, st, node)
                raise Unsupported("pop from empty list", node)
            lt = recv.ty
            n = self.list_len(recv)
            if args:
                i = self.coerce(args[0], TInt, node).z
            else:
                i = n - 1
            self.oblige("safe", "pop-index", z3.And(i >= -n, i < n), st, node)
            pos = z3.If(i < 0, i + n, i)
            r = self.fresh_val(lt, "pop")
            self.assume(self.list_len(r) == n - 1, st)
            self.assume(self.forall_idx(n - 1, lambda j: self.list_get(r, j) == z3.If(
                j < pos, self.list_get(recv, j), self.list_get(recv, j + 1))), st)
            self.trusted.add("list.insert(i, x): clamps i to [0, len]; list.pop(i): deletes position i")
            return r, Val(lt.elem, self.list_get(recv, pos))
        if attr == "remove":
            if k == "EmptyList":
                self.oblige("safe", "remove-missing", False, st, node)
                raise Unsupported("remove from empty list", node)
            lt = recv.ty
            x = args[0]
            n = self.list_len(recv)
            self.oblige("safe", "remove-missing", self.member(x, recv, node), st, node)
            E = lambda j: Val(lt.elem, self.list_get(recv, j))
            if self.mode == "UNROLL":
                pos = z3.IntVal(self.bound)
                for i in reversed(range(self.bound)):
                    pos = z3.If(z3.And(z3.IntVal(i) < n, self.val_eq(E(z3.IntVal(i)), x, node)), z3.IntVal(i), pos)
                arr = self.list_arr(recv)
                new_arr = arr
                for i in range(self.bound):
                    new_arr = z3.Store(new_arr, z3.IntVal(i), z3.If(z3.IntVal(i) < pos, self.list_get(recv, z3.IntVal(i)),
                                                                     self.list_get(recv, z3.IntVal(i + 1))))
                return self.mk_list(lt, n - 1, new_arr), none
            pos = self.fresh(z3.IntSort(), "rmpos")
            self.assume(z3.And(pos >= 0, pos < n, self.val_eq(E(pos), x, node)), st)
            self.assume(self.forall_idx(pos, lambda j: z3.Not(self.val_eq(E(j), x, node))), st)
            r = self.fresh_val(lt, "rm")
            self.assume(self.list_len(r) == n - 1, st)
            self.assume(self.forall_idx(n - 1, lambda j: self.list_get(r, j) == z3.If(
                j < pos, self.list_get(recv, j), self.list_get(recv, j + 1))), st)
            # the same fact read from the old list (a consequence, stated so that e-matching finds the witness index)
            self.assume(self.forall_idx(n, lambda j: z3.Implies(j != pos, self.list_get(recv, j) == self.list_get(
                r, z3.If(j < pos, j, j - 1)))), st)
            self.trusted.add("list.remove(x): deletes the first element equal to x")
            return r, none
        if attr == "clear":
            return Val(T_EMPTY, None), none
        raise Unsupported("list.%s" % attr, node)

    def store_back(self, recv_node, old, new, st, node=None):
        if isinstance(recv_node, ast.Name):
            name = recv_node.id
            if old.alias is not None:
                key, refz = old.alias
                self.write_key(st, key, refz, self.coerce(new, self.field_type(key), node).z)
                self.poison_aliases(st, key, except_name=name)
                new = Val(new.ty, new.z, alias=old.alias)
            self.assign_name(st, name, new)
            return
        if isinstance(recv_node, ast.Attribute):
            obj = self.ev(recv_node.value, st)
            if obj.ty.kind != "Ref":
                raise Unsupported("mutation through %r" % (obj.ty,), node)
            key = self.field_key(obj.ty.cls, recv_node.attr, node)
            self.mutation_sites.append((self.cur_qual, key, getattr(node, "lineno", None)))
            self.write_field(st, obj, recv_node.attr, new, node)
            self.poison_aliases(st, key)
            return
        raise Unsupported("in-place mutation of an unnamed container", node)

    def poison_aliases(self, st, key, except_name=None):
        for n, v in list(st.env.items()):
            if n != except_name and v is not None and v.alias is not None and v.alias[0] == key:
                st.env[n] = Val(TPoison("alias of %s.%s mutated in place" % key), None)

    def construct(self, cls, args, kwargs, st, node=None):
        """object construction: a fresh reference (distinct from None and from every reference in scope), then __init__
        through its contract (a constructor without contract is outside the subset)"""
        if cls in self.src.classes and self.src.classes[cls].is_enum:
            v = args[0]
            return Val(TEnum(cls), self.coerce(v, TInt, node).z)
        qual = cls + ".__init__"
        c = self.contracts.get(qual)
        if c is None:
            raise Unsupported("object construction %s(...) without a contract for __init__" % cls, node)
        r = self.fresh_val(TRef(cls), "new_" + cls)
        self.assume(r.z != self.S.null, st)
        self.assume(self.cls_of(r.z) == self.class_ids[cls], st)
        for v in list(st.env.values()) + list((self.fn_old_env or {}).values()):
            if v is not None and getattr(v.ty, "kind", None) == "Ref" and z3.is_expr(v.z):
                self.assume(r.z != v.z, st)
        self.fresh_objects.append(r.z)
        self.call_function(qual, r, args, kwargs, st, node)
        return r
