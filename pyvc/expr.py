"""Expression evaluation (python ast -> symbolic values)."""
import ast
from fractions import Fraction
import z3

from .vtypes import (TInt, TReal, TBool, TStr, TNone, TDate, TDelta, TJson, TRef, TEnum, TList, TSet, TTuple,
                     TDict, TOpt, TRecord)
from .core import (Val, Unsupported, TPoison, T_EMPTY, T_LAMBDA, T_CLASS, T_BUILTIN, T_METHOD, T_FUNC,
                   T_MODULE, T_ITER, SPECIAL_KINDS, MUTATORS, zbool, zand, zor, znot, is_true, is_false, State)

BUILTIN_NAMES = {
    "reversed", "len", "list", "set", "filter", "map", "sorted", "sum", "all", "any", "min", "max", "enumerate", "range",
    "int", "float", "str", "isinstance", "super", "abs", "print", "bool", "Exception", "open", "tuple", "zip",
}
MODULE_NAMES = {"np", "itertools", "datetime", "warnings", "json", "uuid", "abc", "sys"}


def real_const(x):
    return z3.RealVal(str(Fraction(repr(float(x)))))


def _forall_pat(vs, body, patterns):
    """ForAll with explicit patterns, falling back to inferred patterns when z3 rejects them (e.g. ite in a pattern)"""
    try:
        return z3.ForAll(vs, body, patterns=patterns)
    except z3.Z3Exception:
        return z3.ForAll(vs, body)


class ExprMixin:
    # ------------------------------------------------------------------ entry
    def ev(self, node, st):
        m = getattr(self, "ev_" + type(node).__name__, None)
        if m is None:
            raise Unsupported("expression %s" % type(node).__name__, node)
        return m(node, st)

    def ev_Constant(self, node, st):
        v = node.value
        if isinstance(v, bool):
            return Val(TBool, z3.BoolVal(v))
        if isinstance(v, int):
            return Val(TInt, z3.IntVal(v))
        if isinstance(v, float):
            return Val(TReal, real_const(v))
        if isinstance(v, str):
            return Val(TStr, self.S.str_lit(v))
        if v is None:
            return Val(TNone, self.S.none_val)
        raise Unsupported("constant %r" % (v,), node)

    def ev_Name(self, node, st):
        n = node.id
        if n in st.env:
            v = st.env[n]
            if v is None or v.ty.kind == "Poison":
                raise Unsupported("use of variable %s that is undefined/ill-typed on some path (%s)" % (
                    n, getattr(v.ty, "why", "") if v is not None else ""), node)
            return v
        return self.global_name(n, node)

    def global_name(self, n, node=None):
        if n in self.src.classes:
            return Val(T_CLASS, None, py=n)
        if n in self.src.functions:
            return Val(T_FUNC, None, py=n)
        if n in self.spec_builtins and self.spec:
            return Val(T_BUILTIN, None, py=n)
        if n in BUILTIN_NAMES:
            return Val(T_BUILTIN, None, py=n)
        if n in MODULE_NAMES:
            return Val(T_MODULE, None, py=n)
        if n in self.spec_builtins:
            return Val(T_BUILTIN, None, py=n)
        raise Unsupported("unknown name %s" % n, node)

    def ev_Attribute(self, node, st):
        base = self.ev(node.value, st)
        return self.get_attr(base, node.attr, st, node)

    def get_attr(self, base, attr, st, node=None):
        k = base.ty.kind
        if k == "Class":
            ci = self.src.classes[base.py]
            if ci.is_enum:
                if attr not in ci.enum_members:
                    raise Unsupported("enum member %s.%s" % (base.py, attr), node)
                return Val(TEnum(base.py), z3.IntVal(ci.enum_members[attr]))
            return Val(T_FUNC, None, py="%s.%s" % (base.py, attr))
        if k == "Module":
            return Val(T_MODULE, None, py=base.py + "." + attr)
        if k == "Ref":
            if base.ty.cls is None:
                raise Unsupported("attribute %s of untyped reference" % attr, node)
            if attr == "__class__":
                return Val(T_CLASS, None, py=base.ty.cls)
            if self.has_field(base.ty.cls, attr):
                heap = self.old_heap if self.in_old else None
                return self.read_field(st, base, attr, node, heap=heap)
            c, fn = self.src.find_method(base.ty.cls, attr)
            if fn is not None:
                return Val(T_METHOD, None, py=(base, attr))
            raise Unsupported("attribute %s.%s unknown" % (base.ty.cls, attr), node)
        if k == "Enum" and attr == "name":
            f = self.uf("enum_name_%s" % base.ty.name, z3.IntSort(), self.S.Str)
            return Val(TStr, f(base.z), py=("enum_name", base))
        if k == "Enum" and attr == "value":
            return Val(TInt, base.z)
        if k in ("List", "EmptyList", "Set", "Dict", "Str", "Date", "Delta", "Opt", "Json", "Kwargs"):
            return Val(T_METHOD, None, py=(base, attr))
        raise Unsupported("attribute %s on %r" % (attr, base.ty), node)

    # ------------------------------------------------------------------ operators
    def unwrap_opt_num(self, v, st, node):
        if v.ty.kind == "Opt" and v.ty.t.kind in ("Int", "Real", "Delta", "Enum"):
            if st is not None:
                self.oblige("safe", "none-in-arithmetic", z3.Not(self.opt_is_none(v)), st, node)
            return self.opt_val(v)
        return v

    def num_unify(self, a, b, node):
        for v in (a, b):
            if v.ty.kind not in ("Int", "Real", "Enum", "Bool", "Delta"):
                raise Unsupported("arithmetic on %r" % (v.ty,), node)
        if a.ty.kind in ("Real", "Delta") or b.ty.kind in ("Real", "Delta"):
            return self.coerce(a, TReal, node) if a.ty.kind != "Delta" else Val(TReal, a.z), \
                self.coerce(b, TReal, node) if b.ty.kind != "Delta" else Val(TReal, b.z), TReal
        return self.coerce(a, TInt, node), self.coerce(b, TInt, node), TInt

    def ev_BinOp(self, node, st):
        a = self.ev(node.left, st)
        b = self.ev(node.right, st)
        return self.binop(node.op, a, b, st, node)

    def binop(self, op, a, b, st, node=None):
        a, b = self.unwrap_opt_num(a, st, node), self.unwrap_opt_num(b, st, node)
        ka, kb = a.ty.kind, b.ty.kind
        if ka == "Str" and kb == "Str" and isinstance(op, ast.Add):
            return Val(TStr, self.uf("str_concat", self.S.Str, self.S.Str, self.S.Str)(a.z, b.z))
        # datetime arithmetic (trusted, DESIGN 2.6)
        if ka == "Date" and kb in ("Delta", "Real", "Int"):
            d = self.coerce(b, TReal, node).z if kb == "Int" else b.z
            self.trusted.add("datetime: date +/- timedelta is an additive group action (A1)")
            f = self.uf("date_add", self.S.Date, z3.RealSort(), self.S.Date)
            if isinstance(op, ast.Add):
                return Val(TDate, self.date_add(a.z, d))
            if isinstance(op, ast.Sub):
                return Val(TDate, self.date_add(a.z, -d))
        if ka == "Date" and kb == "Date" and isinstance(op, ast.Sub):
            return Val(TDelta, self.uf("date_diff", self.S.Date, self.S.Date, z3.RealSort())(a.z, b.z))
        if (ka == "Delta" or kb == "Delta"):
            if isinstance(op, ast.Mult):
                x, y, _ = self.num_unify(a, b, node)
                return Val(TDelta, self.mul(x.z, y.z))
            if isinstance(op, ast.Div) and ka == "Delta" and kb == "Delta":
                self.oblige("safe", "div-zero", b.z != 0, st, node)
                return Val(TReal, a.z / b.z)
            if isinstance(op, (ast.Add, ast.Sub)) and ka == "Delta" and kb == "Delta":
                return Val(TDelta, a.z + b.z if isinstance(op, ast.Add) else a.z - b.z)
            raise Unsupported("timedelta operation", node)
        if ka in ("List", "EmptyList") and kb in ("List", "EmptyList") and isinstance(op, ast.Add):
            return self.list_concat(a, b, node)
        if ka == "Tuple" and kb == "Tuple" and isinstance(op, ast.Add):
            return self.mk_tuple([self.tuple_get(a, i) for i in range(len(a.ty.elems))] +
                                 [self.tuple_get(b, i) for i in range(len(b.ty.elems))])
        x, y, t = self.num_unify(a, b, node)
        if isinstance(op, ast.Add):
            return Val(t, x.z + y.z)
        if isinstance(op, ast.Sub):
            return Val(t, x.z - y.z)
        if isinstance(op, ast.Mult):
            return Val(t, self.mul(x.z, y.z))
        if isinstance(op, ast.Div):
            xr, yr = self.coerce(x, TReal), self.coerce(y, TReal)
            self.oblige("safe", "div-zero", yr.z != 0, st, node)
            ys = z3.simplify(yr.z)
            if z3.is_rational_value(ys) or self.mode == "UNROLL":
                return Val(TReal, xr.z / yr.z)
            # division by a non-constant stays uninterpreted (x / 1 == x is the only fact used)
            f = self.uf("nl_div", z3.RealSort(), z3.RealSort(), z3.RealSort())
            if "nl_div_axioms" not in self.ghost:
                self.ghost["nl_div_axioms"] = True
                av = z3.Real("a!d")
                self.assumptions.append(_forall_pat([av], f(av, 1) == av, [f(av, 1)]))
                self.trusted.add("x / y for symbolic y is uninterpreted except x / 1 == x")
            return Val(TReal, f(xr.z, yr.z))
        if isinstance(op, ast.FloorDiv) and t == TInt:
            self.oblige("safe", "div-zero", y.z != 0, st, node)
            return Val(TInt, x.z / y.z)
        if isinstance(op, ast.Mod) and t == TInt:
            self.oblige("safe", "div-zero", y.z != 0, st, node)
            return Val(TInt, x.z % y.z)
        raise Unsupported("binary operator %s" % type(op).__name__, node)

    def mul(self, x, y):
        """products of two non-constant terms stay uninterpreted (commutative, 0 and 1 absorbing/neutral):
        keeps every obligation in linear arithmetic (DESIGN 6/C02: `w*f` products are opaque per pair)"""
        xs, ys = z3.simplify(x), z3.simplify(y)
        if z3.is_rational_value(xs) or z3.is_int_value(xs) or z3.is_rational_value(ys) or z3.is_int_value(ys):
            return x * y
        if self.mode == "UNROLL":
            # quantifier-free bounded instances: native (non-linear) arithmetic, so that counter-models are found
            if x.sort() != y.sort():
                x = z3.ToReal(x) if z3.is_int(x) else x
                y = z3.ToReal(y) if z3.is_int(y) else y
            return x * y
        if x.sort() != y.sort():
            x = z3.ToReal(x) if z3.is_int(x) else x
            y = z3.ToReal(y) if z3.is_int(y) else y
        f = self.uf("nl_mul_%s" % x.sort(), x.sort(), y.sort(), x.sort())
        if ("nl_mul_axioms_%s" % x.sort()) not in self.ghost:
            self.ghost["nl_mul_axioms_%s" % x.sort()] = True
            a, b = z3.Consts("a!m b!m", x.sort())
            self.assumptions.append(_forall_pat([a, b], f(a, b) == f(b, a), [f(a, b)]))
            self.assumptions.append(_forall_pat([a], z3.And(f(a, 0) == 0, f(a, 1) == a), [f(a, 0), f(a, 1)]))
            self.trusted.add("products of two symbolic numbers are an uninterpreted commutative function (no non-linear reasoning)")
        return f(x, y)

    def date_add(self, d, x):
        f = self.uf("date_add", self.S.Date, z3.RealSort(), self.S.Date)
        if "date_axioms" not in self.ghost:
            self.ghost["date_axioms"] = True
            dd = z3.Const("d!ax", self.S.Date)
            a, b = z3.Reals("a!ax b!ax")
            saved, self.binders = self.binders, []
            self.assumptions.append(z3.ForAll([dd, a, b], f(f(dd, a), b) == f(dd, a + b)))
            self.assumptions.append(z3.ForAll([dd], f(dd, 0) == dd))
            self.binders = saved
        return f(d, x)

    def ev_UnaryOp(self, node, st):
        v = self.ev(node.operand, st)
        if isinstance(node.op, ast.Not):
            return Val(TBool, z3.Not(self.truth(v, node)))
        if isinstance(node.op, ast.USub):
            if v.ty.kind not in ("Int", "Real"):
                raise Unsupported("negation of %r" % (v.ty,), node)
            return Val(v.ty, -v.z)
        if isinstance(node.op, ast.UAdd):
            return v
        raise Unsupported("unary op", node)

    def ev_BoolOp(self, node, st):
        is_and = isinstance(node.op, ast.And)
        acc = None
        pushed = 0
        try:
            for sub in node.values:
                v = self.ev(sub, st)
                t = self.truth(v, sub)
                acc = t if acc is None else (z3.And(acc, t) if is_and else z3.Or(acc, t))
                st.path.append(acc if is_and else z3.Not(acc))
                pushed += 1
        finally:
            for _ in range(pushed):
                st.path.pop()
        return Val(TBool, acc)

    def ev_IfExp(self, node, st):
        c = self.truth(self.ev(node.test, st), node)
        st.path.append(c)
        a = self.ev(node.body, st)
        st.path.pop()
        st.path.append(z3.Not(c))
        b = self.ev(node.orelse, st)
        st.path.pop()
        if is_true(z3.simplify(c)):
            return a
        if is_false(z3.simplify(c)):
            return b
        r = self.ite_val(c, a, b)
        if r.ty.kind == "Poison":
            raise Unsupported("conditional expression with incompatible arms %r / %r" % (a.ty, b.ty), node)
        return r

    def ev_Compare(self, node, st):
        left = self.ev(node.left, st)
        acc = None
        for op, rn in zip(node.ops, node.comparators):
            right = self.ev(rn, st)
            c = self.compare(op, left, right, st, node)
            acc = c if acc is None else z3.And(acc, c)
            left = right
        return Val(TBool, acc)

    def compare(self, op, a, b, st, node=None):
        if isinstance(op, (ast.Eq, ast.NotEq)):
            en = None
            if isinstance(a.py, tuple) and a.py and a.py[0] == "enum_name" and b.ty.kind == "Str":
                en, other = a.py[1], b
            elif isinstance(b.py, tuple) and b.py and b.py[0] == "enum_name" and a.ty.kind == "Str":
                en, other = b.py[1], a
            lit = None
            if en is not None:
                lit = [t for t, c in self.S._lits.items() if c.eq(other.z)]
            if en is not None and lit:
                # E.name == "LIT"  <=>  E == <member named LIT>   (enum table re-read from the source, A4)
                members = self.src.classes[en.ty.name].enum_members
                e = (en.z == members[lit[0]]) if lit[0] in members else z3.BoolVal(False)
            elif a.ty.kind == "Class" and b.ty.kind == "Class":
                e = z3.BoolVal(a.py == b.py)
            else:
                e = self.val_eq(a, b, node)
            return e if isinstance(op, ast.Eq) else z3.Not(e)
        if isinstance(op, (ast.Is, ast.IsNot)):
            e = self.identity(a, b, st, node)
            return e if isinstance(op, ast.Is) else z3.Not(e)
        if isinstance(op, (ast.In, ast.NotIn)):
            e = self.member(a, b, node)
            return e if isinstance(op, ast.In) else z3.Not(e)
        if a.ty.kind == "Tuple" and b.ty.kind == "Tuple":
            return self.lex_compare(op, a, b, node)
        if a.ty.kind == "Set" and b.ty.kind == "Set":
            if isinstance(op, ast.LtE):
                return self.set_subset(a, b, node)
            if isinstance(op, ast.GtE):
                return self.set_subset(b, a, node)
            if isinstance(op, ast.Lt):
                return z3.And(self.set_subset(a, b, node), z3.Not(self.set_subset(b, a, node)))
            if isinstance(op, ast.Gt):
                return z3.And(self.set_subset(b, a, node), z3.Not(self.set_subset(a, b, node)))
        x, y, t = self.num_unify(a, b, node)
        if isinstance(op, ast.Lt):
            return x.z < y.z
        if isinstance(op, ast.LtE):
            return x.z <= y.z
        if isinstance(op, ast.Gt):
            return x.z > y.z
        if isinstance(op, ast.GtE):
            return x.z >= y.z
        raise Unsupported("comparison", node)

    def identity(self, a, b, st, node=None):
        """python `is` (A8): exact for None / references / enum members / bools; for str and numbers
        two equal values need not be identical: `is` is an uninterpreted relation implying ==."""
        ka, kb = a.ty.kind, b.ty.kind
        if ka == "None" and kb == "None":
            return z3.BoolVal(True)
        if ka == "None" or kb == "None":
            o = b if ka == "None" else a
            if o.ty.kind == "Ref":
                return o.z == self.S.null
            if o.ty.kind == "Opt":
                return self.opt_is_none(o)
            return z3.BoolVal(False)
        if ka == "Ref" and kb == "Ref":
            return a.z == b.z
        if ka in ("Enum", "Bool") and kb in ("Enum", "Bool"):
            return self.val_eq(a, b, node)
        if ka == "Enum" or kb == "Enum":
            return self.val_eq(a, b, node)
        if ka == "Class" and kb == "Class":
            return z3.BoolVal(a.py == b.py)
        # strings / numbers / optional strings: identity is NOT value equality
        t = self.unify(a.ty, b.ty)
        if t.kind == "Poison":
            return z3.BoolVal(False)
        az, bz = self.coerce(a, t, node).z, self.coerce(b, t, node).z
        self.identity_on_values.append(getattr(node, "lineno", None))
        f = self.uf("same_object_%s" % str(az.sort()), az.sort(), az.sort(), z3.IntSort(), z3.BoolSort())
        site = z3.IntVal(getattr(node, "lineno", 0) or 0)
        r = f(az, bz, site)
        self.assume(z3.Implies(r, az == bz), st)
        if t.kind == "Opt":
            # None is a singleton
            self.assume(z3.Implies(z3.And(self.S.sort(t).is_none(az), self.S.sort(t).is_none(bz)), r), st)
        return r

    def lex_compare(self, op, a, b, node=None):
        n = len(a.ty.elems)
        if n != len(b.ty.elems):
            raise Unsupported("tuple comparison of different arity", node)
        strict = isinstance(op, (ast.Lt, ast.Gt))
        less = isinstance(op, (ast.Lt, ast.LtE))

        def go(i):
            if i == n:
                return z3.BoolVal(not strict)
            x, y = self.tuple_get(a, i), self.tuple_get(b, i)
            xx, yy, _ = self.num_unify(x, y, node)
            lt = xx.z < yy.z if less else xx.z > yy.z
            return z3.Or(lt, z3.And(xx.z == yy.z, go(i + 1)))
        return go(0)

    # ------------------------------------------------------------------ containers
    def ev_List(self, node, st):
        if not node.elts:
            return Val(T_EMPTY, None)
        vals = [self.ev(e, st) for e in node.elts]
        t = vals[0].ty
        homog = True
        for v in vals[1:]:
            u = self.unify(t, v.ty)
            if u.kind == "Poison" or (t.kind == "Ref" and v.ty.kind == "Enum") or (t.kind == "Enum" and v.ty.kind == "Ref"):
                homog = False
                break
            t = u
        if not homog:
            # heterogeneous fixed-length list, e.g. [task, dependency]: modelled as a tuple
            return self.mk_tuple(vals)
        lt = TList(t)
        arr = self.empty_array(self.S.sort(t))
        for i, v in enumerate(vals):
            arr = z3.Store(arr, i, self.coerce(v, t, node).z)
        return self.mk_list(lt, z3.IntVal(len(vals)), arr)

    def ev_Set(self, node, st):
        vals = [self.ev(e, st) for e in node.elts]
        t = vals[0].ty
        for v in vals[1:]:
            t = self.unify(t, v.ty)
        if t.kind == "Poison":
            raise Unsupported("heterogeneous set literal", node)
        arr = z3.K(self.S.sort(t), False)
        for v in vals:
            arr = z3.Store(arr, self.coerce(v, t, node).z, True)
        return Val(TSet(t), arr)

    def ev_SetComp(self, node, st):
        lst = self.realize(self.comp_view(node, st), st, node)
        return self.bi_set([lst], {}, st, node)

    def set_universe(self, t):
        """finite universe of a set's element type, if any"""
        if t.kind == "Enum" and t.name in self.src.classes:
            return [z3.IntVal(v) for v in sorted(set(self.src.classes[t.name].enum_members.values()))]
        if t.kind == "Bool":
            return [z3.BoolVal(True), z3.BoolVal(False)]
        if t.kind == "Ref" and self.S.ref_consts is not None:
            return [self.S.null] + list(self.S.ref_consts)
        return None

    def set_subset(self, a, b, node=None):
        t = self.unify(a.ty, b.ty)
        if t.kind != "Set":
            raise Unsupported("set comparison of %r and %r" % (a.ty, b.ty), node)
        uni = self.set_universe(t.elem)
        if uni is not None:
            return z3.And(*[z3.Implies(z3.Select(a.z, u), z3.Select(b.z, u)) for u in uni])
        x = self.qvar("x", self.S.sort(t.elem))
        return z3.ForAll([x], z3.Implies(z3.Select(a.z, x), z3.Select(b.z, x)))

    def ev_Tuple(self, node, st):
        return self.mk_tuple([self.ev(e, st) for e in node.elts])

    def ev_Dict(self, node, st):
        if not node.keys:
            return Val(TSpecialEmptyDict, None)
        if all(isinstance(k, ast.Constant) and isinstance(k.value, str) for k in node.keys):
            names = [k.value for k in node.keys]
            vals = [self.ev(v, st) for v in node.values]
            ty = TRecord(names, [v.ty for v in vals])
            return Val(ty, self.S.sort(ty).mk(*[v.z for v in vals]))
        # {k1: v1, k2: v2, ...} with keys of one scalar type (e.g. enum members): a finite map built by stores
        keys = [self.ev(k, st) for k in node.keys if k is not None]
        vals = [self.ev(v, st) for v in node.values]
        if len(keys) != len(vals) or not keys:
            raise Unsupported("dict literal with ** unpacking", node)
        kt, vt = keys[0].ty, vals[0].ty
        for k in keys[1:]:
            kt = self.unify(kt, k.ty)
        for v in vals[1:]:
            vt = self.unify(vt, v.ty)
        if kt.kind not in ("Enum", "Int", "Str") or vt.kind in ("Poison", "EmptyList", "None"):
            raise Unsupported("dict literal with keys of type %r / values of type %r" % (kt, vt), node)
        from .vtypes import TDict
        dt = TDict(kt, vt)
        sd = self.S.sort(dt)
        ks, vs = self.S.sort(kt), self.S.sort(vt)
        dom = z3.K(ks, z3.BoolVal(False))
        val = self.empty_array_kv(ks, vs)
        for k, v in zip(keys, vals):              # later entries win, as in python
            kz = self.coerce(k, kt, node).z
            dom = z3.Store(dom, kz, z3.BoolVal(True))
            val = z3.Store(val, kz, self.coerce(v, vt, node).z)
        return Val(dt, sd.mk(dom, val))

    def ev_Subscript(self, node, st):
        base = self.ev(node.value, st)
        if isinstance(node.slice, ast.Slice):
            return self.slice_list(base, node.slice, st, node)
        if base.ty.kind == "Opt" and base.ty.t.kind in ("Tuple", "Record"):
            self.oblige("safe", "none-subscript", z3.Not(self.opt_is_none(base)), st, node)
            base = self.opt_val(base)
        if base.ty.kind == "Record":
            idx = node.slice
            if isinstance(idx, ast.Constant) and idx.value in base.ty.names:
                i = base.ty.names.index(idx.value)
                return Val(base.ty.elems[i], self.S.sort(base.ty).accessor(0, i)(base.z))
            self.oblige("safe", "record-key", False, st, node)
            raise Unsupported("record key", node)
        if base.ty.kind == "Tuple":
            idx = node.slice
            if isinstance(idx, ast.Constant) and isinstance(idx.value, int):
                i = idx.value
                if i < 0:
                    i += len(base.ty.elems)
                if not (0 <= i < len(base.ty.elems)):
                    self.oblige("safe", "tuple-index", False, st, node)
                    raise Unsupported("tuple index out of range", node)
                return self.tuple_get(base, i)
            raise Unsupported("non-constant tuple index", node)
        idx = self.ev(node.slice, st)
        return self.index(base, idx, st, node)

    def index(self, base, idx, st, node=None):
        k = base.ty.kind
        if k == "List":
            i = self.coerce(idx, TInt, node).z
            n = self.list_len(base)
            self.oblige("safe", "index", z3.And(i >= -n, i < n), st, node)
            if self.spec:
                pos = i          # specifications index mathematical sequences (no wrap-around)
            else:
                pos = z3.If(i < 0, i + n, i)
                if is_true(z3.simplify(i >= 0)) or self.nonneg_index(i, st):
                    pos = i
            return Val(base.ty.elem, self.list_get(base, pos))
        if k == "EmptyList":
            self.oblige("safe", "index", False, st, node)
            raise Unsupported("index into literally empty list", node)
        if k == "Dict":
            key = self.coerce(idx, base.ty.k, node).z
            s = self.S.sort(base.ty)
            self.oblige("safe", "key", z3.Select(s.dom(base.z), key), st, node)
            return Val(base.ty.v, z3.Select(s.val(base.z), key))
        if k == "Opt":
            self.oblige("safe", "none-subscript", z3.Not(self.opt_is_none(base)), st, node)
            return self.index(self.opt_val(base), idx, st, node)
        if k == "Kwargs":
            if idx.ty != TStr:
                raise Unsupported("kwargs key", node)
            name = [t for t, c in self.S._lits.items() if c.eq(idx.z)]
            present = name and name[0] in base.py
            self.oblige("safe", "kwargs-key.%s" % (name[0] if name else "?"), bool(present), st, node)
            if not present:
                raise Unsupported("kwargs[%r] not passed" % (name,), node)
            return base.py[name[0]]
        raise Unsupported("subscript of %r" % (base.ty,), node)

    def nonneg_index(self, i, st):
        """cheap syntactic/SMT check that an index is non-negative on this path (avoids wrap-around ite)"""
        if self.dry:
            return False
        s = z3.Solver()
        s.set("timeout", 200)
        for p in st.path:
            s.add(zbool(p))
        for _, g in self.binders:
            s.add(zbool(g))
        for a in self.assumptions[-40:]:
            if not z3.is_quantifier(a):
                s.add(a)
        s.add(i < 0)
        return s.check() == z3.unsat

    def slice_list(self, base, sl, st, node):
        if base.ty.kind == "EmptyList":
            return base
        if base.ty.kind != "List":
            raise Unsupported("slice of %r" % (base.ty,), node)
        n = self.list_len(base)
        step = None
        if sl.step is not None:
            sv = self.ev(sl.step, st)
            step = z3.simplify(sv.z)
        if step is not None and sl.lower is None and sl.upper is None and step.eq(z3.IntVal(-1)):
            r = self.fresh_val(base.ty, "rev")
            self.assume(self.list_len(r) == n, st)
            self.assume(self.forall_idx(n, lambda k: self.list_get(r, k) == self.list_get(base, n - 1 - k)), st)
            return r
        if step is not None:
            raise Unsupported("slice step", node)
        lo = self.coerce(self.ev(sl.lower, st), TInt).z if sl.lower is not None else z3.IntVal(0)
        hi = self.coerce(self.ev(sl.upper, st), TInt).z if sl.upper is not None else n
        # python clamps; negative indices count from the end
        lo = z3.If(lo < 0, z3.If(lo + n < 0, 0, lo + n), z3.If(lo > n, n, lo))
        hi = z3.If(hi < 0, z3.If(hi + n < 0, 0, hi + n), z3.If(hi > n, n, hi))
        ln = z3.If(hi > lo, hi - lo, 0)
        r = self.fresh_val(base.ty, "slice")
        self.assume(self.list_len(r) == ln, st)
        self.assume(self.forall_idx(ln, lambda k: self.list_get(r, k) == self.list_get(base, lo + k)), st)
        return r

    def list_concat(self, a, b, node=None):
        if a.ty.kind == "EmptyList":
            return b
        if b.ty.kind == "EmptyList":
            return a
        t = self.unify(a.ty, b.ty)
        a, b = self.coerce(a, t, node), self.coerce(b, t, node)
        r = self.fresh_val(t, "cat")
        la, lb = self.list_len(a), self.list_len(b)
        self.assume(self.list_len(r) == la + lb)
        self.assume(self.forall_idx(la, lambda k: self.list_get(r, k) == self.list_get(a, k)))
        self.assume(self.forall_idx(lb, lambda k: self.list_get(r, la + k) == self.list_get(b, k)))
        return r

    def ev_Lambda(self, node, st):
        return Val(T_LAMBDA, None, py=(node, dict(st.env), self.cur_cls))

    def ev_JoinedStr(self, node, st):
        return self.fresh_val(TStr, "fstr")

    # ------------------------------------------------------------------ lambda application
    def apply_fn(self, fn, args, st, node=None):
        if fn.ty.kind == "Lambda":
            lam, env, cls = fn.py
            params = [a.arg for a in lam.args.args]
            if len(params) != len(args):
                # tuple-unpacking convenience for spec lambdas
                raise Unsupported("lambda arity", node)
            sub = st.copy()
            sub.env = dict(env)
            for p, a in zip(params, args):
                sub.env[p] = a
            saved = self.cur_cls
            self.cur_cls = cls
            try:
                return self.ev(lam.body, sub)
            finally:
                self.cur_cls = saved
        if fn.ty.kind in ("Builtin", "Func", "BoundMethod", "Class"):
            return self.call_value(fn, args, {}, st, node)
        raise Unsupported("apply %r" % (fn.ty,), node)

    # ------------------------------------------------------------------ iterable views
    def as_view(self, v, st, node=None):
        """returns (length z3, getter(k)->Val, elem_type or None).  v may be a list or a lazy map/enumerate/range"""
        k = v.ty.kind
        if k == "EmptyList":
            return z3.IntVal(0), (lambda i: (_ for _ in ()).throw(Unsupported("element of empty list", node))), None
        if k == "List":
            if isinstance(v.py, tuple) and v.py and v.py[0] == "mapped":
                return v.py[1], v.py[2], v.ty.elem
            return self.list_len(v), (lambda i: Val(v.ty.elem, self.list_get(v, i))), v.ty.elem
        if k == "Opt" and v.ty.t.kind == "List":
            self.oblige("safe", "none-iter", z3.Not(self.opt_is_none(v)), st, node)
            return self.as_view(self.opt_val(v), st, node)
        if k == "Iter":
            tag = v.py[0]
            if tag == "map":
                _, fn, src = v.py
                n, g, _ = self.as_view(src, st, node)
                return n, (lambda i: self.apply_fn(fn, [g(i)], st, node)), None
            if tag == "enumerate":
                n, g, _ = self.as_view(v.py[1], st, node)
                return n, (lambda i: self.mk_tuple([Val(TInt, i if z3.is_expr(i) else z3.IntVal(i)), g(i)])), None
            if tag == "reversed":
                n, g, et = self.as_view(v.py[1], st, node)
                return n, (lambda i: g(n - 1 - i)), et
            if tag == "zip":
                n1, g1, _ = self.as_view(v.py[1], st, node)
                n2, g2, _ = self.as_view(v.py[2], st, node)
                return z3.If(n1 <= n2, n1, n2), (lambda i: self.mk_tuple([g1(i), g2(i)])), None
            if tag == "range":
                lo, hi = v.py[1], v.py[2]
                n = z3.If(hi > lo, hi - lo, 0)
                return n, (lambda i: Val(TInt, lo + i)), TInt
            if tag == "gen":
                # generator expression / list comprehension without condition
                _, elt, target, src, env, cls = v.py
                n, g, _ = self.as_view(src, st, node)

                def getter(i):
                    sub = st.copy()
                    sub.env = dict(env)
                    self.bind_target(target, g(i), sub, node)
                    saved = self.cur_cls
                    self.cur_cls = cls
                    try:
                        return self.ev(elt, sub)
                    finally:
                        self.cur_cls = saved
                return n, getter, None
            if tag in ("filter", "genif", "values"):
                lst = self.realize(v, st, node)
                return self.as_view(lst, st, node)
        raise Unsupported("iteration over %r" % (v.ty,), node)

    def elem_type_of_view(self, n, getter, st):
        """evaluate the getter once under a throw-away binder to learn the element type"""
        k = self.qvar("kt")
        self.dry += 1
        try:
            return getter(k).ty
        finally:
            self.dry -= 1

    def realize(self, v, st, node=None):
        """turn an iterable into a list value"""
        k = v.ty.kind
        if k in ("List", "EmptyList"):
            return v
        if k == "Set":
            return self.set_to_list(v, st, node)
        if k == "Opt" and v.ty.t.kind == "List":
            self.oblige("safe", "none-iter", z3.Not(self.opt_is_none(v)), st, node)
            return self.opt_val(v)
        if k != "Iter":
            raise Unsupported("list(%r)" % (v.ty,), node)
        tag = v.py[0]
        if tag in ("filter", "genif"):
            return self.realize_filter(v, st, node)
        if tag == "values":
            raise Unsupported("dict.values() as list", node)
        n, g, et = self.as_view(v, st, node)
        if et is None:
            et = self.elem_type_of_view(n, g, st)
        if et.kind == "EmptyList":
            raise Unsupported("list of untyped empty lists", node)
        if et.kind == "None":
            raise Unsupported("list of None", node)
        lt = TList(et)
        if self.mode == "UNROLL":
            self.assume(n <= self.bound, st)       # unwinding assumption (bounded stand-in)
            arr = self.empty_array(self.S.sort(et))
            for i in range(self.bound):
                ii = z3.IntVal(i)
                st.path.append(ii < n)
                e = self.coerce(g(ii), et, node)
                st.path.pop()
                arr = z3.If(ii < n, z3.Store(arr, ii, e.z), arr)
            return self.mk_list(lt, n, arr)
        if tag == "range":
            lo, hi = v.py[1], v.py[2]
            rf = self.uf("range_list", z3.IntSort(), z3.IntSort(), self.S.sort(lt))
            r = Val(lt, rf(lo, hi))
        else:
            r = self.fresh_val(lt, "map")
        r.py = ("mapped", n, g)
        self.assume(self.list_len(r) == n, st)
        kq = self.qvar()
        self.binders.append((kq, z3.And(kq >= 0, kq < n)))
        try:
            e = self.coerce(g(kq), et, node)
            eq = self.list_get(r, kq) == e.z
        finally:
            self.binders.pop()
        pats = [self.list_get(r, kq)]
        srcv = v.py[2] if tag == "map" else (v.py[3] if tag == "gen" else None)
        if srcv is not None and getattr(srcv, "ty", None) is not None and srcv.ty.kind == "List":
            pats.append(self.list_get(srcv, kq))        # also instantiate from an element of the source list
        self.assume(_forall_pat([kq], z3.Implies(z3.And(kq >= 0, kq < n), eq), pats), st)
        return r

    def realize_filter(self, v, st, node=None):
        tag = v.py[0]
        if tag == "filter":
            _, fn, srcv = v.py
            src = self.realize(srcv, st, node)
            pred = lambda x: self.truth(self.apply_fn(fn, [x], st, node), node)
            elt = None
        else:
            _, elt, target, srcv, cond, env, cls = v.py
            src = self.realize(srcv, st, node)

            def pred(x):
                sub = st.copy()
                sub.env = dict(env)
                self.bind_target(target, x, sub, node)
                saved, self.cur_cls = self.cur_cls, cls
                try:
                    return self.truth(self.ev(cond, sub), node)
                finally:
                    self.cur_cls = saved
        if src.ty.kind == "EmptyList":
            return src
        n = self.list_len(src)
        lt = src.ty
        if self.mode == "UNROLL":
            self.assume(n <= self.bound, st)       # unwinding assumption (bounded stand-in)
            arr = self.empty_array(self.S.sort(lt.elem))
            cnt = z3.IntVal(0)
            for i in range(self.bound):
                ii = z3.IntVal(i)
                x = Val(lt.elem, self.list_get(src, ii))
                st.path.append(ii < n)
                c = z3.And(ii < n, pred(x))
                st.path.pop()
                arr = z3.If(c, z3.Store(arr, cnt, x.z), arr)
                cnt = z3.If(c, cnt + 1, cnt)
            r = self.mk_list(lt, cnt, arr)
        else:
            self.trusted.add("filter(pred, L) = order-preserving sub-list of the elements satisfying pred")
            from .calls import abstract_over
            depth = getattr(self, "_sum_depth", 0)
            kc = z3.Int("k!filtcanon%d" % depth)
            self._sum_depth = depth + 1
            self.binders.append((kc, z3.And(kc >= 0, kc < n)))
            self.spec += 1
            try:
                pc = zbool(pred(Val(lt.elem, self.list_get(src, kc))))
            finally:
                self.spec -= 1
                self.binders.pop()
                self._sum_depth = depth
            template, targs = abstract_over(pc, kc)
            bvs = [b for b, _ in self.binders]
            if template is None:
                targs = list(bvs)
                key = ("opaque-filter", pc.get_id())
            else:
                key = ("filter", template, tuple(str(x.sort()) for x in targs), str(src.z.sort()))
            fargs = [src.z] + list(targs)
            if key not in self.sum_cache:
                idn = len(self.sum_cache)
                sorts = [x.sort() for x in fargs]
                self.sum_cache[key] = (z3.Function("filt!%d" % idn, *(sorts + [self.S.sort(lt)])),
                                       z3.Function("emb!%d" % idn, *(sorts + [z3.IntSort(), z3.IntSort()])),
                                       z3.Function("inv!%d" % idn, *(sorts + [z3.IntSort(), z3.IntSort()])))
            ff, emb, inv = self.sum_cache[key]
            r = Val(lt, ff(*fargs))
            site = (key, tuple(x.get_id() for x in fargs))
            if site not in self.sum_sites and not self.dry:
                self.sum_sites.add(site)
                m = self.list_len(r)
                j, j2, i = self.qvar("j"), self.qvar("j"), self.qvar("i")
                pj = z3.substitute(pc, (kc, emb(*fargs, j)))
                pi_ = z3.substitute(pc, (kc, i))
                facts = [
                    z3.And(m >= 0, m <= n),
                    _forall_pat([j], z3.Implies(z3.And(j >= 0, j < m), z3.And(
                        emb(*fargs, j) >= 0, emb(*fargs, j) < n, self.list_get(r, j) == self.list_get(src, emb(*fargs, j)), pj)), [self.list_get(r, j)]),
                    z3.ForAll([j, j2], z3.Implies(z3.And(j >= 0, j < j2, j2 < m), emb(*fargs, j) < emb(*fargs, j2))),
                    _forall_pat([i], z3.Implies(z3.And(i >= 0, i < n, pi_), z3.And(
                        inv(*fargs, i) >= 0, inv(*fargs, i) < m, emb(*fargs, inv(*fargs, i)) == i)), [self.list_get(src, i)]),
                ]
                fact = z3.And(*facts)
                if bvs:
                    fact = z3.ForAll(bvs, z3.Implies(z3.And(*[zbool(g) for _, g in self.binders]), fact))
                self.assumptions.append(fact)
            # safety of the predicate on every element of the source list
            if not self.spec and not self.dry:
                self.binders.append((kc, z3.And(kc >= 0, kc < n)))
                try:
                    pred(Val(lt.elem, self.list_get(src, kc)))
                finally:
                    self.binders.pop()
        if tag == "genif" and not (isinstance(elt, ast.Name) and isinstance(target, ast.Name) and elt.id == target.id):
            return self.realize(Val(T_ITER, None, py=("gen", elt, target, r, env, cls)), st, node)
        return r

    def set_to_list(self, v, st, node=None):
        """list(S): an arbitrary enumeration without repetition (A6)"""
        self.trusted.add("list(set)/iteration over a set: arbitrary order, each element exactly once (A6)")
        lt = TList(v.ty.elem)
        r = self.fresh_val(lt, "setlist")
        n = self.list_len(r)
        self.assume(n >= 0, st)
        self.assume(self.forall_idx(n, lambda k: z3.Select(v.z, self.list_get(r, k))), st)
        if self.mode == "UNROLL":
            parts = []
            for a in range(self.bound):
                for b in range(a + 1, self.bound):
                    parts.append(z3.Implies(z3.IntVal(b) < n, self.list_get(r, z3.IntVal(a)) != self.list_get(r, z3.IntVal(b))))
            self.assume(z3.And(*parts) if parts else True, st)
            # every member is enumerated
            if self.S.ref_consts is not None and v.ty.elem.kind == "Ref":
                for c in [self.S.null] + list(self.S.ref_consts):
                    self.assume(z3.Implies(z3.Select(v.z, c), z3.Or(*[z3.And(z3.IntVal(i) < n, self.list_get(r, z3.IntVal(i)) == c)
                                                                     for i in range(self.bound)])), st)
        else:
            a, b = self.qvar("a"), self.qvar("b")
            self.assume(z3.ForAll([a, b], z3.Implies(z3.And(a >= 0, a < b, b < n), self.list_get(r, a) != self.list_get(r, b))), st)
            x = self.qvar("x", self.S.sort(v.ty.elem))
            pos = z3.Function("pos!%d" % next(self.counter), self.S.sort(v.ty.elem), z3.IntSort())
            self.assume(z3.ForAll([x], z3.Implies(z3.Select(v.z, x), z3.And(pos(x) >= 0, pos(x) < n, self.list_get(r, pos(x)) == x))), st)
        return r

    def ev_ListComp(self, node, st):
        return self.realize(self.comp_view(node, st), st, node)

    def ev_GeneratorExp(self, node, st):
        return self.comp_view(node, st)

    def comp_view(self, node, st):
        if len(node.generators) != 1:
            raise Unsupported("comprehension with several generators", node)
        g = node.generators[0]
        src = self.ev(g.iter, st)
        if src.ty.kind == "Set":
            src = self.set_to_list(src, st, node)
        if g.ifs:
            cond = g.ifs[0] if len(g.ifs) == 1 else ast.BoolOp(op=ast.And(), values=list(g.ifs))
            return Val(T_ITER, None, py=("genif", node.elt, g.target, src, cond, dict(st.env), self.cur_cls))
        return Val(T_ITER, None, py=("gen", node.elt, g.target, src, dict(st.env), self.cur_cls))

    def bind_target(self, target, v, st, node=None):
        if isinstance(target, ast.Name):
            st.env[target.id] = v
            return
        if isinstance(target, (ast.Tuple, ast.List)):
            if v.ty.kind != "Tuple" or len(v.ty.elems) != len(target.elts):
                raise Unsupported("unpacking of %r" % (v.ty,), node)
            for i, t in enumerate(target.elts):
                self.bind_target(t, self.tuple_get(v, i), st, node)
            return
        raise Unsupported("binding target", node)


class _TEmptyDict:
    kind = "EmptyDict"

    def __repr__(self):
        return "EmptyDict"


TSpecialEmptyDict = _TEmptyDict()
