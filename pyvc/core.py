"""pyvc core: values, state, heap, coercions, obligations (DESIGN.md section 2)."""
import itertools
import z3

from .vtypes import (T, TInt, TReal, TBool, TStr, TNone, TDate, TDelta, TJson, TRef, TEnum, TList, TSet,
                     TTuple, TDict, TOpt, Sorts, parse_type)


class Unsupported(Exception):
    def __init__(self, msg, node=None):
        self.node = node
        line = getattr(node, "lineno", "?")
        super().__init__("%s (line %s)" % (msg, line))


class TEmptyList(T):
    kind = "EmptyList"

    def __repr__(self):
        return "EmptyList"


class TPoison(T):
    kind = "Poison"

    def __init__(self, why=""):
        self.why = why

    def __repr__(self):
        return "Poison"


T_EMPTY = TEmptyList()


class TSpecial(T):
    def __init__(self, kind):
        self.kind = kind

    def __repr__(self):
        return self.kind


T_LAMBDA = TSpecial("Lambda")
T_CLASS = TSpecial("Class")
T_BUILTIN = TSpecial("Builtin")
T_METHOD = TSpecial("BoundMethod")
T_FUNC = TSpecial("Func")
T_MODULE = TSpecial("Module")
T_ITER = TSpecial("Iter")
SPECIAL_KINDS = ("Lambda", "Class", "Builtin", "BoundMethod", "Func", "Module", "Iter")


class Val:
    __slots__ = ("ty", "z", "alias", "py")

    def __init__(self, ty, z, alias=None, py=None):
        self.ty = ty
        self.z = z
        self.alias = alias     # (heapkey, ref z3) when a list value is a direct view of a field
        self.py = py           # python-side payload (lambda, class name, bound method, ...)

    def __repr__(self):
        return "Val(%r,%s)" % (self.ty, self.z)


class Obligation:
    def __init__(self, name, kind, n_assump, path, goal, line=None, info=None):
        self.name = name
        self.kind = kind
        self.n_assump = n_assump
        self.path = path
        self.goal = goal
        self.line = line
        self.info = info or {}
        self.result = None
        self.time = 0.0
        self.backend = None
        self.model = None
        self.reason = None


class State:
    def __init__(self):
        self.env = {}
        self.heap = {}
        self.path = []          # z3 conditions of enclosing branches
        self.ret = False        # z3 Bool or python bool
        self.ret_val = None
        self.brk = False
        self.cont = False
        self.written = set()
        self.last_merge = None

    def copy(self):
        s = State()
        s.env = dict(self.env)
        s.heap = dict(self.heap)
        s.path = list(self.path)
        s.ret, s.ret_val, s.brk, s.cont = self.ret, self.ret_val, self.brk, self.cont
        s.written = self.written      # shared on purpose: union over all branches
        s.last_merge = self.last_merge
        return s


def zbool(b):
    return b if z3.is_expr(b) else z3.BoolVal(bool(b))


def is_true(b):
    return b is True or (z3.is_expr(b) and z3.is_true(b))


def is_false(b):
    return b is False or (z3.is_expr(b) and z3.is_false(b))


def zor(*xs):
    xs = [x for x in xs if not is_false(x)]
    if any(is_true(x) for x in xs):
        return True
    if not xs:
        return False
    return xs[0] if len(xs) == 1 else z3.Or(*[zbool(x) for x in xs])


def zand(*xs):
    xs = [x for x in xs if not is_true(x)]
    if any(is_false(x) for x in xs):
        return False
    if not xs:
        return True
    return xs[0] if len(xs) == 1 else z3.And(*[zbool(x) for x in xs])


def znot(x):
    if is_true(x):
        return False
    if is_false(x):
        return True
    return z3.Not(x)


MUTATORS = {"append", "extend", "insert", "pop", "remove", "add", "update", "clear"}


class Core:
    def __init__(self, src, schema, contracts, mode="INV", bound=3, nrefs=None, nstrs=None):
        self.src = src
        self.mode = mode                # "INV" | "UNROLL"
        self.bound = bound
        self.S = Sorts(finite_refs=nrefs if mode == "UNROLL" else None,
                       finite_strs=nstrs if mode == "UNROLL" else None)
        self.schema = {c: {a: parse_type(t) for a, t in d.items()} for c, d in schema.items()}
        self.contracts = contracts      # registry: qual -> Contract
        self.assumptions = []
        self.obligations = []
        self.obl_names = set()
        self.goal_assumptions = set()
        self.extra_path = []
        self.ref_class = None
        self.read_log = None
        self.heap_tag = "new"
        self.spec_value_cache = {}
        self.counter = itertools.count()
        self.binders = []               # stack of (z3 var, guard)
        self.dry = 0
        self.spec = 0
        self.cur_qual = None
        self.cur_cls = None
        self.prefix = ""
        self.old_heap = None
        self.old_env = None
        self.loop_entry = []            # stack of (heap, env) at loop entry for pre(...)
        self.call_depth = 0
        self.trusted = set()            # names of axioms/builtins actually used
        self.inlined = set()
        self.called_by_contract = set()
        self.ghost = {}
        self._empty_arrays = {}
        self._ufs = {}
        self.cls_of = z3.Function("cls_of", self.S.Ref, z3.IntSort())
        self.class_ids = {c: i + 1 for i, c in enumerate(sorted(self.src.classes))}

    # ------------------------------------------------------------------ utilities
    def fresh(self, sort, hint="v"):
        name = "%s!%d" % (hint, next(self.counter))
        if self.binders:
            bvs = [b for b, _ in self.binders]
            f = z3.Function(name, *([b.sort() for b in bvs] + [sort]))
            return f(*bvs)
        return z3.Const(name, sort)

    def fresh_val(self, ty, hint="v"):
        v = Val(ty, self.fresh(self.S.sort(ty), hint))
        if ty.kind == "List" and not self.dry:
            self.assume(self.list_len(v) >= 0)      # type invariant of python lists
        return v

    def uf(self, name, *sorts):
        if name not in self._ufs:
            self._ufs[name] = z3.Function(name, *sorts)
        return self._ufs[name]

    def path_cond(self, st):
        ps = [zbool(p) for p in st.path if not is_true(p)]
        if not ps:
            return None
        return ps[0] if len(ps) == 1 else z3.And(*ps)

    def assume(self, fact, st=None):
        if self.dry:
            return
        fact = zbool(fact)
        if st is not None:
            # facts established by executing a statement hold only where that statement is actually reached:
            # under the branch conditions AND while no return/break/continue has happened on this path
            live = self.live(st)
            if not is_true(live):
                fact = z3.Implies(zbool(live), fact)
            pc = self.path_cond(st)
            if pc is not None:
                fact = z3.Implies(pc, fact)
        for bv, guard in reversed(self.binders):
            fact = z3.ForAll([bv], z3.Implies(zbool(guard), fact))
        self.assumptions.append(fact)

    def oblige_split(self, kind, label, goal, st, node=None, info=None, depth=0):
        """one obligation per top-level conjunct: smaller queries, and a failure names the conjunct"""
        if self.dry or self.spec:
            return
        if z3.is_expr(goal) and z3.is_and(goal) and depth < 3 and goal.num_args() > 1:
            for i, c in enumerate(goal.children()):
                self.oblige_split(kind, "%s.%d" % (label, i), c, st, node, info, depth + 1)
            return
        if z3.is_expr(goal) and z3.is_implies(goal) and z3.is_and(goal.arg(1)) and depth < 3 and goal.arg(1).num_args() > 1:
            for i, c in enumerate(goal.arg(1).children()):
                self.oblige_split(kind, "%s.%d" % (label, i), z3.Implies(goal.arg(0), c), st, node, info, depth + 1)
            return
        self.oblige(kind, label, goal, st, node, info)

    def oblige(self, kind, label, goal, st, node=None, info=None):
        if self.dry or self.spec:
            return
        if is_true(goal):
            return
        name = "%s/%s:%s" % (self.prefix, kind, label)
        line = getattr(node, "lineno", None)     # kept as metadata; names stay stable when lines shift
        base, k = name, 1
        while name in self.obl_names:
            k += 1
            name = "%s#%d" % (base, k)
        self.obl_names.add(name)
        goal = zbool(goal)
        live = self.live(st)
        path = [zbool(p) for p in st.path if not is_true(p)] + [zbool(p) for p in self.extra_path]
        if not is_true(live):
            path.append(zbool(live))
        if self.binders:
            # path conditions may mention the bound variables: they belong under the quantifier
            if path:
                goal = z3.Implies(z3.And(*path) if len(path) > 1 else path[0], goal)
            path = []
            for bv, guard in reversed(self.binders):
                goal = z3.ForAll([bv], z3.Implies(zbool(guard), goal))
        self.obligations.append(Obligation(name, kind, len(self.assumptions), path, goal, line, info))
        # assert-then-assume (exit-stage obligations are independent of each other: not assumed)
        if kind in ("post", "frame"):
            return
        before = len(self.assumptions)
        if not self.binders:
            self.assume(z3.Implies(zbool(live), goal), st)
        else:
            self.assumptions.append(goal)       # already closed under the binders and the path
        for i in range(before, len(self.assumptions)):
            self.goal_assumptions.add(i)

    def probe(self, label, st):
        """vacuity guard: `False` must NOT be provable here (DESIGN 3.5)"""
        if self.dry or self.spec or self.binders:
            return
        name = "%s/probe:%s" % (self.prefix, label)
        base, k = name, 1
        while name in self.obl_names:
            k += 1
            name = "%s#%d" % (base, k)
        self.obl_names.add(name)
        path = [zbool(p) for p in st.path if not is_true(p)]
        self.obligations.append(Obligation(name, "probe", len(self.assumptions), path, z3.BoolVal(False), None, None))

    def live(self, st):
        return znot(zor(st.ret, st.brk, st.cont))

    # ------------------------------------------------------------------ types / coercion
    def unify(self, a, b):
        if a == b:
            return a
        ka, kb = a.kind, b.kind
        if ka == "Poison" or kb == "Poison":
            return TPoison()
        if "Delta" in (ka, kb) and {ka, kb} <= {"Int", "Real", "Delta"}:
            return TReal if ka != kb else a
        if {ka, kb} <= {"Int", "Real", "Enum", "Bool"}:
            if "Real" in (ka, kb):
                return TReal
            if ka == "Enum" and kb == "Enum":
                return TInt
            if "Enum" in (ka, kb):
                return a if ka == "Enum" else b
            if ka == "Bool" and kb == "Bool":
                return TBool
            return TInt
        if ka == "None":
            return b if kb in ("Ref", "Opt") else TOpt(b)
        if kb == "None":
            return a if ka in ("Ref", "Opt") else TOpt(a)
        if ka == "Ref" and kb == "Ref":
            if a.cls is None or b.cls is None:
                return TRef(None)
            if self.src.is_subclass(a.cls, b.cls):
                return b
            if self.src.is_subclass(b.cls, a.cls):
                return a
            return TRef(None)
        if ka == "Opt" and kb == "Opt":
            return TOpt(self.unify(a.t, b.t))
        if ka == "Opt":
            return TOpt(self.unify(a.t, b))
        if kb == "Opt":
            return TOpt(self.unify(a, b.t))
        if ka == "EmptyList" and kb == "List":
            return b
        if kb == "EmptyList" and ka == "List":
            return a
        if ka == "List" and kb == "List":
            return TList(self.unify(a.elem, b.elem))
        if ka == "Tuple" and kb == "Tuple" and len(a.elems) == len(b.elems):
            return TTuple([self.unify(x, y) for x, y in zip(a.elems, b.elems)])
        if ka == "Set" and kb == "Set":
            e = self.unify(a.elem, b.elem)
            if e.kind == "Ref" and e.cls is None:
                e = a.elem if a.elem.cls else b.elem
            return TSet(e)
        return TPoison("%r vs %r" % (a, b))

    def empty_array(self, elem_sort):
        k = str(elem_sort)
        if k not in self._empty_arrays:
            self._empty_arrays[k] = z3.Const("emptyarr_%s" % k.replace(" ", "_"),
                                             z3.ArraySort(z3.IntSort(), elem_sort))
        return self._empty_arrays[k]

    def empty_array_kv(self, key_sort, elem_sort):
        k = "kv_%s_%s" % (key_sort, elem_sort)
        if k not in self._empty_arrays:
            self._empty_arrays[k] = z3.Const("emptymap_%s" % k.replace(" ", "_").replace("(", "_").replace(")", "_"),
                                             z3.ArraySort(key_sort, elem_sort))
        return self._empty_arrays[k]

    def opt_none(self, ty):
        return Val(ty, self.S.sort(ty).none)

    def opt_is_none(self, v):
        return self.S.sort(v.ty).is_none(v.z)

    def opt_val(self, v):
        return Val(v.ty.t, self.S.sort(v.ty).val(v.z))

    def coerce(self, v, ty, node=None):
        a = v.ty
        if a == ty:
            return v
        ka, kt = a.kind, ty.kind
        if kt == "Poison" or ka == "Poison":
            return Val(TPoison(), None)
        if kt == "Real" and ka == "Delta":
            return Val(ty, v.z)
        if kt == "Real" and ka in ("Int", "Enum"):
            return Val(ty, z3.ToReal(v.z))
        if kt == "Real" and ka == "Bool":
            return Val(ty, z3.If(v.z, z3.RealVal(1), z3.RealVal(0)))
        if kt in ("Int", "Enum") and ka in ("Int", "Enum"):
            return Val(ty, v.z)
        if kt == "Int" and ka == "Bool":
            return Val(ty, z3.If(v.z, z3.IntVal(1), z3.IntVal(0)))
        if kt == "Delta" and ka == "Real":
            return Val(ty, v.z)
        if kt == "Ref" and ka == "Ref":
            return Val(ty if ty.cls else a, v.z, py=v.py)
        if kt == "Ref" and ka == "None":
            return Val(ty, self.S.null)
        if kt == "Opt":
            s = self.S.sort(ty)
            if ka == "None":
                return Val(ty, s.none)
            if ka == "Opt":
                sa = self.S.sort(a)
                if sa == s:
                    return Val(ty, v.z)
                inner = self.coerce(Val(a.t, sa.val(v.z)), ty.t, node)
                return Val(ty, z3.If(sa.is_none(v.z), s.none, s.some(inner.z)))
            inner = self.coerce(v, ty.t, node)
            return Val(ty, s.some(inner.z))
        if kt == "List" and ka == "EmptyList":
            s = self.S.sort(ty)
            return Val(ty, s.mk(z3.IntVal(0), self.empty_array(self.S.sort(ty.elem))))
        if kt == "List" and ka == "List":
            if self.S.sort(a) == self.S.sort(ty):
                return Val(ty, v.z, alias=v.alias)
            r = self.fresh_val(ty, "coerced")
            k = z3.Int("k!c%d" % next(self.counter))
            ev = self.coerce(Val(a.elem, self.list_get(v, k)), ty.elem, node)
            self.assume(self.list_len(r) == self.list_len(v))
            self.assume(z3.ForAll([k], z3.Implies(z3.And(k >= 0, k < self.list_len(v)),
                                                  self.list_get(r, k) == ev.z)))
            return r
        if kt == "Tuple" and ka == "Tuple" and len(a.elems) == len(ty.elems):
            s = self.S.sort(ty)
            sa = self.S.sort(a)
            parts = [self.coerce(Val(a.elems[i], sa.accessor(0, i)(v.z)), ty.elems[i], node).z
                     for i in range(len(a.elems))]
            return Val(ty, s.mk(*parts))
        if kt == "Dict" and (ka == "EmptyDict" or (ka == "None" and v.py == "emptydict")):
            sd = self.S.sort(ty)
            dflt = self.ghost.setdefault("emptydictvals_%s" % sd, z3.Const("emptydictvals_%s" % sd, z3.ArraySort(self.S.sort(ty.k), self.S.sort(ty.v))))
            return Val(ty, sd.mk(z3.K(self.S.sort(ty.k), False), dflt))
        if kt == "Set" and ka == "Set" and self.S.sort(a) == self.S.sort(ty):
            return Val(ty, v.z, py=v.py)
        if kt == "Json":
            return Val(ty, self.fresh(self.S.Json, "json"))
        raise Unsupported("cannot coerce %r to %r" % (a, ty), node)

    def truth(self, v, node=None):
        k = v.ty.kind
        if k == "Bool":
            return v.z
        if k == "List":
            return self.list_len(v) > 0
        if k == "EmptyList":
            return z3.BoolVal(False)
        if k in ("Int", "Enum", "Real"):
            return v.z != 0
        if k == "Ref":
            return v.z != self.S.null
        if k == "None":
            return z3.BoolVal(False)
        if k == "Opt":
            # `if x:` on an optional container/number: not None AND the value itself is truthy (an empty list is falsy)
            inner = self.opt_val(v)
            if inner.ty.kind in ("Ref", "None"):
                return z3.Not(self.opt_is_none(v))
            return z3.And(z3.Not(self.opt_is_none(v)), zbool(self.truth(inner, node)))
        raise Unsupported("truthiness of %r" % (v.ty,), node)

    # ------------------------------------------------------------------ list helpers
    def list_len(self, v):
        if v.ty.kind == "EmptyList":
            return z3.IntVal(0)
        return self.S.sort(v.ty).len(v.z)

    def list_arr(self, v):
        return self.S.sort(v.ty).el(v.z)

    def list_get(self, v, k):
        return z3.Select(self.list_arr(v), k)

    def mk_list(self, ty, length, arr):
        return Val(ty, self.S.sort(ty).mk(length, arr))

    def tuple_get(self, v, i):
        return Val(v.ty.elems[i], self.S.sort(v.ty).accessor(0, i)(v.z))

    def mk_tuple(self, vals):
        ty = TTuple([v.ty for v in vals])
        return Val(ty, self.S.sort(ty).mk(*[v.z for v in vals]))

    def qvar(self, hint="k", sort=None):
        return z3.Const("%s!q%d" % (hint, next(self.counter)), sort if sort is not None else z3.IntSort())

    def forall_idx(self, length, body_fn, lo=0, pats=None):
        """forall k in [lo, length): body_fn(k).  Expanded in UNROLL mode."""
        if self.mode == "UNROLL":
            parts = []
            for i in range(lo if isinstance(lo, int) else 0, self.bound + 1):
                k = z3.IntVal(i)
                rng = z3.And(k >= lo, k < length)
                self.extra_path.append(rng)       # obligations raised while evaluating the body hold only inside the range
                try:
                    b = zbool(body_fn(k))
                finally:
                    self.extra_path.pop()
                parts.append(z3.Implies(rng, b))
            return z3.And(*parts) if parts else z3.BoolVal(True)
        k = self.qvar()
        body = z3.Implies(z3.And(k >= lo, k < length), zbool(body_fn(k)))
        if pats is not None:
            try:
                return z3.ForAll([k], body, patterns=[p(k) for p in pats])     # alternative single-term triggers
            except z3.Z3Exception:
                pass
        return z3.ForAll([k], body)

    def exists_idx(self, length, body_fn, lo=0):
        if self.mode == "UNROLL":
            parts = []
            for i in range(lo if isinstance(lo, int) else 0, self.bound + 1):
                k = z3.IntVal(i)
                rng = z3.And(k >= lo, k < length)
                self.extra_path.append(rng)
                try:
                    b = zbool(body_fn(k))
                finally:
                    self.extra_path.pop()
                parts.append(z3.And(rng, b))
            return z3.Or(*parts) if parts else z3.BoolVal(False)
        k = self.qvar()
        return z3.Exists([k], z3.And(k >= lo, k < length, zbool(body_fn(k))))

    def list_eq(self, a, b):
        if a.ty.kind == "EmptyList":
            return self.list_len(b) == 0
        if b.ty.kind == "EmptyList":
            return self.list_len(a) == 0
        pats = None
        if a.ty.elem.kind in ("Ref", "Int", "Real", "Str", "Bool", "Enum") and a.ty.elem == b.ty.elem:
            # an element of EITHER list triggers the equation (a membership witness in one list is carried to the other)
            pats = [lambda k: self.list_get(a, k), lambda k: self.list_get(b, k)]
        return z3.And(self.list_len(a) == self.list_len(b),
                      self.forall_idx(self.list_len(a), lambda k: self.val_eq(
                          Val(a.ty.elem, self.list_get(a, k)), Val(b.ty.elem, self.list_get(b, k))), pats=pats))

    def val_eq(self, a, b, node=None):
        """python == on values"""
        ka, kb = a.ty.kind, b.ty.kind
        if ka in ("List", "EmptyList") and kb in ("List", "EmptyList"):
            return self.list_eq(a, b)
        if ka == "Opt" and kb == "Opt" and a.ty.t.kind == "List":
            return z3.Or(z3.And(self.opt_is_none(a), self.opt_is_none(b)),
                         z3.And(z3.Not(self.opt_is_none(a)), z3.Not(self.opt_is_none(b)),
                                self.list_eq(self.opt_val(a), self.opt_val(b))))
        if ka == "Opt" and kb in ("List", "EmptyList"):
            return z3.And(z3.Not(self.opt_is_none(a)), self.list_eq(self.opt_val(a), b))
        if kb == "Opt" and ka in ("List", "EmptyList"):
            return self.val_eq(b, a, node)
        if ka == "Set" and kb == "Set":
            return z3.And(self.set_subset(a, b, node), self.set_subset(b, a, node))
        if ka == "Tuple" and kb == "Tuple":
            if len(a.ty.elems) != len(b.ty.elems):
                return z3.BoolVal(False)
            return z3.And(*[self.val_eq(self.tuple_get(a, i), self.tuple_get(b, i))
                            for i in range(len(a.ty.elems))])
        t = self.unify(a.ty, b.ty)
        if t.kind == "Poison":
            return z3.BoolVal(False)
        return self.coerce(a, t, node).z == self.coerce(b, t, node).z

    def member(self, x, coll, node=None):
        k = coll.ty.kind
        if k == "EmptyList":
            return z3.BoolVal(False)
        if k == "List":
            return self.exists_idx(self.list_len(coll), lambda j: self.val_eq(
                x, Val(coll.ty.elem, self.list_get(coll, j)), node))
        if k == "Set":
            return z3.Select(coll.z, self.coerce(x, coll.ty.elem, node).z)
        if k == "Dict":
            return z3.Select(self.S.sort(coll.ty).dom(coll.z), self.coerce(x, coll.ty.k, node).z)
        if k == "Opt":
            return self.member(x, self.opt_val(coll), node)
        if k == "Tuple":
            return z3.Or(*[self.val_eq(x, self.tuple_get(coll, i), node) for i in range(len(coll.ty.elems))])
        if k == "Kwargs":
            name = [t for t, c in self.S._lits.items() if x.ty.kind == "Str" and c.eq(x.z)]
            if not name:
                raise Unsupported("non-literal key tested against **kwargs", node)
            return z3.BoolVal(name[0] in coll.py)
        raise Unsupported("membership in %r" % (coll.ty,), node)

    # ------------------------------------------------------------------ heap
    def field_key(self, cls, attr, node=None):
        for c in (self.src.mro(cls) if cls in self.src.classes else []):
            if c in self.schema and attr in self.schema[c]:
                return (c, attr)
        raise Unsupported("attribute %s.%s not in schema" % (cls, attr), node)

    def has_field(self, cls, attr):
        return any(c in self.schema and attr in self.schema[c] for c in self.src.mro(cls))

    def field_type(self, key):
        return self.schema[key[0]][key[1]]

    def heap_arr(self, st_or_heap, key):
        heap = st_or_heap.heap if isinstance(st_or_heap, State) else st_or_heap
        if key not in heap:
            heap[key] = self.initial_heap_arr(key)
        if self.read_log is not None:
            self.read_log.append((self.heap_tag, key, heap[key].get_id()))
        return heap[key]

    def initial_heap_arr(self, key):
        name = "H0_%s_%s" % key
        if name not in self.ghost:
            arr = z3.Const(name, z3.ArraySort(self.S.Ref, self.S.sort(self.field_type(key))))
            self.ghost[name] = arr
            if self.mode == "UNROLL" and self.S.ref_consts is not None:
                # WF.types over the finite universe: well-typed references, enum values in range, lengths >= 0
                ty = self.field_type(key)
                for r in (self.consts_of_class(key[0]) if getattr(self, "ref_class", None) is not None else self.S.ref_consts):
                    f = self.well_typed(Val(ty, z3.Select(arr, r)), depth=0)
                    if f is not None:
                        self.assumptions.append(f)
        return self.ghost[name]

    def set_universe_layout(self, layout):
        """UNROLL mode: fix the class of every reference constant, e.g. [('BaseTask', 2), ('BaseWorker', 2)]"""
        self.ref_class = {}
        consts = list(self.S.ref_consts)
        i = 0
        for cls, n in layout:
            for _ in range(n):
                if i >= len(consts):
                    raise ValueError("universe layout larger than the number of reference constants")
                self.ref_class[consts[i].get_id()] = cls
                self.assumptions.append(self.cls_of(consts[i]) == self.class_ids[cls])
                i += 1
        self.layout_consts = {}
        for c in consts[:i]:
            self.layout_consts.setdefault(self.ref_class[c.get_id()], []).append(c)
        self.untyped_consts = consts[i:]

    def consts_of_class(self, cls):
        """reference constants that may denote an object of class cls (or a subclass)"""
        if getattr(self, "ref_class", None) is None:
            return list(self.S.ref_consts)
        out = list(self.untyped_consts)
        for c2, cs in self.layout_consts.items():
            if cls is None or self.src.is_subclass(c2, cls):
                out += cs
        return out

    def class_ids_of(self, cls):
        return [self.class_ids[c] for c in self.src.subclasses(cls)] if cls in self.src.classes else []

    def well_typed(self, v, depth=0):
        """type invariant of a value (WF.types); None if there is nothing to say"""
        k = v.ty.kind
        if k == "Ref" and v.ty.cls is not None:
            if self.mode == "UNROLL" and getattr(self, "ref_class", None) is not None:
                return z3.Or(v.z == self.S.null, *[v.z == c for c in self.consts_of_class(v.ty.cls)])
            ids = self.class_ids_of(v.ty.cls)
            return z3.Or(v.z == self.S.null, *[self.cls_of(v.z) == i for i in ids])
        if k == "Enum":
            ci = self.src.classes.get(v.ty.name)
            if ci is None:
                return None
            return z3.Or(*[v.z == m for m in sorted(set(ci.enum_members.values()))])
        if k == "List" and depth < 2:
            parts = [self.list_len(v) >= 0]
            if self.mode == "UNROLL":
                for i in range(self.bound + 1):
                    f = self.well_typed(Val(v.ty.elem, self.list_get(v, z3.IntVal(i))), depth + 1)
                    if f is not None:
                        parts.append(z3.Implies(z3.IntVal(i) < self.list_len(v), f))
            return z3.And(*parts)
        if k == "Tuple":
            parts = [self.well_typed(self.tuple_get(v, i), depth + 1) for i in range(len(v.ty.elems))]
            parts = [p for p in parts if p is not None]
            return z3.And(*parts) if parts else None
        if k == "Opt":
            f = self.well_typed(self.opt_val(v), depth + 1)
            return None if f is None else z3.Implies(z3.Not(self.opt_is_none(v)), f)
        return None

    def read_field(self, st, obj, attr, node=None, heap=None):
        if obj.ty.kind != "Ref" or obj.ty.cls is None:
            raise Unsupported("attribute %s of %r" % (attr, obj.ty), node)
        key = self.field_key(obj.ty.cls, attr, node)
        self.oblige("safe", "none-deref.%s" % attr, obj.z != self.S.null, st, node)
        h = heap if heap is not None else st.heap
        arr = self.heap_arr(h, key)
        ty = self.field_type(key)
        al = (key, obj.z) if (ty.kind in ("List", "Dict", "Set") and heap is None) else None
        return Val(ty, z3.Select(arr, obj.z), alias=al)

    def write_field(self, st, obj, attr, v, node=None):
        if obj.ty.kind != "Ref" or obj.ty.cls is None:
            raise Unsupported("store to attribute %s of %r" % (attr, obj.ty), node)
        key = self.field_key(obj.ty.cls, attr, node)
        self.oblige("safe", "none-deref.%s" % attr, obj.z != self.S.null, st, node)
        fty = self.field_type(key)
        if v.ty.kind == "Opt" and fty.kind != "Opt":
            # the schema says this attribute never holds None
            self.oblige("safe", "none-stored-in.%s" % attr, z3.Not(self.opt_is_none(v)), st, node)
            v = self.opt_val(v)
        self.write_key(st, key, obj.z, self.coerce(v, fty, node).z)

    def write_key(self, st, key, refz, valz):
        arr = self.heap_arr(st, key)
        live = self.live(st)
        new = z3.Store(arr, refz, valz)
        st.heap[key] = new if is_true(live) else z3.If(zbool(live), new, arr)
        st.written.add(key)

    # ------------------------------------------------------------------ env
    def assign_name(self, st, name, v):
        live = self.live(st)
        if not is_true(live) and name in st.env and st.env[name].ty.kind != "Poison" \
                and v.ty.kind not in SPECIAL_KINDS:
            v = self.ite_val(zbool(live), v, st.env[name])
        st.env[name] = v

    def ite_val(self, c, a, b):
        if a is b:
            return a
        if a is None or b is None:
            # bound on one branch only: python would raise NameError if it is read on the other; NameError
            # detection is not modelled (stated in the evidence), the defined value is kept
            return a if a is not None else b
        if a.ty.kind in SPECIAL_KINDS or b.ty.kind in SPECIAL_KINDS:
            return a if (a.ty == b.ty and a.py is b.py) else Val(TPoison("special"), None)
        t = self.unify(a.ty, b.ty)
        if t.kind == "Poison":
            return Val(t, None)
        if t.kind in ("EmptyList", "None"):
            return a
        try:
            az, bz = self.coerce(a, t).z, self.coerce(b, t).z
        except Unsupported:
            return Val(TPoison("coerce"), None)
        if az is bz or (z3.is_expr(az) and z3.is_expr(bz) and az.eq(bz)):
            return Val(t, az, alias=a.alias if a.alias == b.alias else None)
        return Val(t, z3.If(c, az, bz))

    def merge(self, c, s1, s2, base):
        """merge branch states s1 (cond c) and s2 (not c) into base (in place)."""
        c = zbool(c)
        env = {}
        for n in set(s1.env) | set(s2.env):
            env[n] = self.ite_val(c, s1.env.get(n), s2.env.get(n))
        heap = {}
        for k in set(s1.heap) | set(s2.heap):
            a = s1.heap.get(k)
            b = s2.heap.get(k)
            if a is None:
                a = base.heap[k] if k in base.heap else self.initial_heap_arr(k)
            if b is None:
                b = base.heap[k] if k in base.heap else self.initial_heap_arr(k)
            heap[k] = a if a.eq(b) else z3.If(c, a, b)
        base.env = env
        base.heap = heap
        base.last_merge = c

        def mflag(x, y):
            if is_true(x) and is_true(y):
                return True
            if is_false(x) and is_false(y):
                return False
            return z3.If(c, zbool(x), zbool(y))
        rv = None
        if s1.ret_val is not None or s2.ret_val is not None:
            if s1.ret_val is None:
                rv = s2.ret_val
            elif s2.ret_val is None:
                rv = s1.ret_val
            else:
                rv = self.ite_val(c, s1.ret_val, s2.ret_val)
        base.ret = mflag(s1.ret, s2.ret)
        base.ret_val = rv
        base.brk = mflag(s1.brk, s2.brk)
        base.cont = mflag(s1.cont, s2.cont)
