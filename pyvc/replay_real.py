"""Runs under /venv/bin/python with PYTHONPATH=/repo: rebuilds a counter-model with the REAL pDESy classes,
calls the REAL function and evaluates the violated contract clause concretely.

usage: replay_real.py <replay.json>      (prints one JSON object on the last line)
The json has: qual, params, objects, requires[], clause (text) or kind 'safe', defs{name:[params, body]}.
"""
import ast
import copy
import json
import math
import sys
from fractions import Fraction


def load_pdesy():
    import pDESy
    if not pDESy.__file__.startswith(sys.argv[2] if len(sys.argv) > 2 else "/repo"):
        print(json.dumps({"error": "pDESy imported from %s, not from the repository under test" % pDESy.__file__}))
        sys.exit(3)
    import importlib
    ns = {}
    for m in ("base_task", "base_component", "base_worker", "base_facility", "base_team", "base_workplace",
              "base_workflow", "base_product", "base_organization", "base_project", "base_priority_rule",
              "base_subproject_task"):
        mod = importlib.import_module("pDESy.model." + m)
        for k, v in vars(mod).items():
            if isinstance(v, type) or callable(v):
                ns.setdefault(k, v)
    return ns


class Universe:
    def __init__(self, ns, data):
        self.ns = ns
        self.objs = {}
        self.data = data
        for ref, d in data.get("objects", {}).items():
            cls = ns[d["cls"]]
            try:
                o = cls()
            except Exception:
                o = cls.__new__(cls)
            self.objs[ref] = o
        for ref, d in data.get("objects", {}).items():
            o = self.objs[ref]
            for a, v in d["attrs"].items():
                if a.startswith("dummy_"):
                    continue
                ety = None
                setattr(o, a, self.conv(v, (d["cls"], a)))

    def conv(self, v, where=None):
        if isinstance(v, dict):
            if "ref" in v:
                return self.objs.get(v["ref"])
            if "num" in v:
                f = Fraction(v["num"], v["den"])
                return float(f)
            if "tuple" in v:
                xs = [self.conv(x, where) for x in v["tuple"]]
                # [task, dependency] pairs are python lists in pDESy
                if where and where[1] in ("input_task_list", "output_task_list"):
                    dep = self.ns["BaseTaskDependency"]
                    try:
                        xs[1] = dep(xs[1])
                    except Exception:
                        pass
                    return xs
                return tuple(xs)
            if "dict" in v:
                return {k: self.conv(x, where) for k, x in v["dict"].items()}
            if "set" in v:
                return set(self.conv(x, where) for x in v["set"])
            return None
        if isinstance(v, list):
            return [self.conv(x, where) for x in v]
        return v


ENUM_FIELDS = {
    ("BaseTask", "state"): "BaseTaskState", ("BaseComponent", "state"): "BaseComponentState",
    ("BaseWorker", "state"): "BaseWorkerState", ("BaseFacility", "state"): "BaseFacilityState",
}


class SpecTransformer(ast.NodeTransformer):
    """old(E) -> __old(lambda: E') with names wrapped by __tw inside E'"""

    def __init__(self):
        self.in_old = 0
        self.bound = []

    def visit_Call(self, node):
        if isinstance(node.func, ast.Name) and node.func.id == "old":
            self.in_old += 1
            inner = self.visit(node.args[0])
            self.in_old -= 1
            return inner
        if isinstance(node.func, ast.Name) and node.func.id in ("implies",):
            a, b = self.visit(node.args[0]), self.visit(node.args[1])
            return ast.BoolOp(op=ast.Or(), values=[ast.UnaryOp(op=ast.Not(), operand=a), b])
        if isinstance(node.func, ast.Name) and node.func.id == "ite":
            c, a, b = [self.visit(x) for x in node.args]
            return ast.IfExp(test=c, body=a, orelse=b)
        return self.generic_visit(node)

    def visit_Name(self, node):
        if self.in_old and isinstance(node.ctx, ast.Load):
            return ast.Call(func=ast.Name(id="__tw", ctx=ast.Load()), args=[node], keywords=[])
        return node


def make_env(ns, uni, params, memo, defs, result_holder):
    env = dict(ns)

    def tw(x):
        try:
            return memo.get(id(x), x)
        except Exception:
            return x

    def forall(coll, f):
        nargs = f.__code__.co_argcount
        if nargs == 1:
            return all(f(x) for x in list(coll))
        return all(f(*x) for x in list(coll))

    def exists(coll, f):
        nargs = f.__code__.co_argcount
        if nargs == 1:
            return any(f(x) for x in list(coll))
        return any(f(*x) for x in list(coll))

    def objects_of(clsname):
        c = ns[clsname]
        return [o for o in uni.objs.values() if isinstance(o, c)]

    def unchanged(*names):
        for n in names:
            cls, attr = n.split(".")
            for o in objects_of(cls):
                if hasattr(o, attr) and getattr(o, attr) != getattr(memo.get(id(o), o), attr, None):
                    return False
        return True

    def unchanged_except(name, fp):
        cls, attr = name.split(".")
        outside = fp if isinstance(fp, (list, set, tuple)) else [fp]
        for o in objects_of(cls):
            if any(o is x for x in outside):
                continue
            if hasattr(o, attr) and getattr(o, attr) != getattr(memo.get(id(o), o), attr, None):
                return False
        return True
    def ghost_int(name, obj):
        # concrete witness for ghost rank functions: depth in the dependency graph (a cycle gives no valid rank)
        if name == "rank":
            seen = {}

            def depth(t, stack):
                if id(t) in seen:
                    return seen[id(t)]
                if id(t) in stack:
                    return 10 ** 6
                stack = stack | {id(t)}
                d = 0
                for p, _ in getattr(t, "input_task_list", []):
                    d = max(d, depth(p, stack) + 1)
                seen[id(t)] = d
                return d
            return depth(obj, frozenset())
        if name == "crank":
            comps = objects_of("BaseComponent")

            def cdepth(c, stack):
                if id(c) in stack:
                    return 10 ** 6
                ps = [p for p in comps if any(x is c for x in getattr(p, "child_component_list", []))]
                return max([cdepth(p, stack | {id(c)}) + 1 for p in ps] + [0])
            return cdepth(obj, frozenset())
        return 0
    def ghost_rel(name, a, b):
        if name == "desc":
            seen, todo = set(), [a]
            while todo:
                x = todo.pop()
                if x is b:
                    return True
                if id(x) in seen:
                    continue
                seen.add(id(x))
                todo += list(getattr(x, "child_component_list", []))
            return False
        return False
    env.update({
        "ghost_rel": ghost_rel,
        "ghost_int": ghost_int,
        "__tw": tw, "forall": forall, "exists": exists,
        "forall_int": lambda lo, hi, f: all(f(k) for k in range(lo, hi)),
        "exists_int": lambda lo, hi, f: any(f(k) for k in range(lo, hi)),
        "forall_int_t": lambda f: all(f(k) for k in range(-2, 12)),
        "forall_obj": lambda c, f: all(f(o) for o in objects_of(c)),
        "forall_str": lambda f: all(f(s) for s in uni.data.get("strings", [])),
        "iff": lambda a, b: bool(a) == bool(b),
        "let": lambda v, f: f(v),
        "seq_eq": lambda a, b: list(a) == list(b),
        "sorted_by": lambda L, key, rev=False: all((key(L[i]) >= key(L[i + 1])) if rev else (key(L[i]) <= key(L[i + 1])) for i in range(len(L) - 1)),
        "is_perm": lambda A, B: len(A) == len(B) and all(sum(1 for y in A if y is x or y == x) == sum(1 for y in B if y is x or y == x) for x in A),
        "sum_of": lambda L, f: sum(f(x) for x in L),
        "sum_upto": lambda L, f, k: sum(f(x) for x in list(L)[:k]),
        "same": lambda a, b: a == b,
        "flat_elems": lambda outer, f: [x for o in outer for x in f(o)],
        "is_none": lambda x: x is None,
        "typeis": lambda x, c: isinstance(x, ns[c]),
        "elems": lambda L: list(L),
        "to_int": lambda x: math.floor(x),
        "to_real": float,
        "unchanged": unchanged, "unchanged_except": unchanged_except,
    })
    for name, (ps, body) in defs.items():
        tree = ast.parse("(" + body.strip() + ")", mode="eval")
        tree = ast.fix_missing_locations(SpecTransformer().visit(tree))
        code = compile(tree, "<def %s>" % name, "eval")

        def mk(ps, code):
            def fn(*args):
                loc = dict(env)
                loc.update(zip(ps, args))
                return eval(code, loc)
            return fn
        env[name] = mk(ps, code)
    env.update(params)
    return env


def ceval(text, env):
    tree = ast.parse("(" + text.strip() + ")", mode="eval")
    tree = ast.fix_missing_locations(SpecTransformer().visit(tree))
    return eval(compile(tree, "<spec>", "eval"), env)


def main():
    data = json.load(open(sys.argv[1]))
    ns = load_pdesy()
    uni = Universe(ns, data)
    params = {k: uni.conv(v) for k, v in data["params"].items()}
    qual = data["qual"]
    out = {"qual": qual, "reproduced": False}
    memo = {}
    roots = (params, list(uni.objs.values()))
    copy.deepcopy(roots, memo)
    memo = {k: v for k, v in memo.items()}
    defs = data.get("defs", {})
    env = make_env(ns, uni, params, memo, defs, None)
    # preconditions must hold on the materialised input, otherwise the model is not a valid witness
    for r in data.get("requires", []):
        try:
            ok = bool(ceval(r, env))
        except Exception as ex:
            out["precondition_error"] = "%s: %s in %r" % (type(ex).__name__, ex, r)
            ok = False
        if not ok:
            out["precondition_failed"] = r
            print(json.dumps(out))
            return
    if "@" in qual:
        # a block of a real method (pyvc.source.BLOCKS): the same mechanical extraction, compiled in the globals of the real module
        import os
        sys.path.insert(0, os.path.dirname(os.path.dirname(os.path.abspath(__file__))))
        from pyvc.source import Source
        repo = sys.argv[2] if len(sys.argv) > 2 else "/repo"
        src = Source(os.path.join(repo, "pDESy", "model"))
        defcls, fnast = src.get_function(qual)
        fnast.name = "_block"
        import copy as _copy
        from pyvc.source import BLOCKS
        fnast = _copy.deepcopy(fnast)
        # the block hands its locals on to the rest of the host method: expose them to the clause as final_<name>
        fnast.body.append(ast.Return(value=ast.Call(func=ast.Name(id="locals", ctx=ast.Load()), args=[], keywords=[])))
        block_exports = BLOCKS[qual].get("exports", [])
        modname = "pDESy.model." + src.module_of(qual)
        code = compile(ast.fix_missing_locations(ast.Module(body=[fnast], type_ignores=[])), "<block %s>" % qual, "exec")
        g = dict(vars(sys.modules[modname]))
        exec(code, g)
        fn = g["_block"]
        args = {k: v for k, v in params.items() if not k.startswith("kw_")}
    elif "." in qual:
        cls, name = qual.split(".", 1)
        selfobj = params.get("self")
        if name.startswith("__") and not name.endswith("__"):
            name = "_%s%s" % (cls, name)
        fn = getattr(selfobj, name)
        args = {k: v for k, v in params.items() if k != "self" and not k.startswith("kw_")}
    else:
        fn = ns[qual]
        args = {k: v for k, v in params.items() if not k.startswith("kw_")}
    for k, v in params.items():
        if k.startswith("kw_"):
            args[k[3:]] = v
    try:
        res = fn(**args)
        out["result"] = repr(res)[:400]
        exc = None
    except Exception as ex:
        exc = ex
        out["exception"] = "%s: %s" % (type(ex).__name__, ex)
    kind = data.get("kind", "post")
    if kind == "safe":
        out["reproduced"] = exc is not None
    elif exc is not None:
        out["reproduced"] = True       # a contract clause cannot hold if the call does not return
        out["note"] = "call raised instead of returning"
    else:
        env["result"] = res
        if "@" in qual and isinstance(res, dict):
            for name in block_exports:
                if name in res:
                    env["final_" + name] = res[name]
        try:
            holds = bool(ceval(data["clause"], env))
            out["clause_value"] = holds
            out["reproduced"] = not holds
        except Exception as ex:
            out["clause_error"] = "%s: %s" % (type(ex).__name__, ex)
    print(json.dumps(out))


if __name__ == "__main__":
    main()
