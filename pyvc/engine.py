"""Engine = Core + expressions + calls + statements, plus the per-function verification driver."""
import ast
import time
import z3

from .vtypes import TInt, TReal, TBool, TStr, TNone, TRef, TList, TOpt, parse_type
from .core import Core, Val, State, Unsupported, Obligation, zbool, is_true, is_false, zor, znot, SPECIAL_KINDS
from .expr import ExprMixin
from .calls import CallMixin
from .stmt import StmtMixin


def term_size(t, cap):
    """number of AST nodes of t, counted up to cap"""
    n = 0
    stack = [t]
    seen = set()
    while stack and n < cap:
        x = stack.pop()
        i = x.get_id()
        if i in seen:
            continue
        seen.add(i)
        n += 1
        if z3.is_quantifier(x):
            stack.append(x.body())
        elif z3.is_app(x):
            stack.extend(x.children())
    return n


class Engine(Core, ExprMixin, CallMixin, StmtMixin):
    def __init__(self, src, schema, registry, mode="INV", bound=3, nrefs=None, nstrs=None, force_inline=()):
        Core.__init__(self, src, schema, registry, mode=mode, bound=bound, nrefs=nrefs, nstrs=nstrs)
        self.defs = registry.defs
        self.in_old = False
        self.identity_on_values = []
        self.force_inline = set(force_inline)
        self.inline_stack = []
        self.loop_ids = {}
        self._spec_cache = {}
        self.mutation_sites = []
        self.store_sites = []
        self.deleted_attrs = []
        self.unwind_bounds = set()
        self.fn_old_heap = {}
        self.fn_old_env = {}
        self.last_sum = None
        self.last_sorted = None
        self.defaulted_params = []
        self.pure_cache = {}
        self.sum_cache = {}
        self.sum_sites = set()
        self.sorted_from = {}
        self._keep_alive = []
        self.assuming_post = 0
        self.rec_limit = 2
        self.fresh_objects = []
        self.collect_returns = None
        self.def_cache = {}
        self.loop_head = []
        self.bounded_only_clauses = []
        self.bounded_clauses_assumed = set()

    # read_field with the type invariant len >= 0
    def read_field(self, st, obj, attr, node=None, heap=None):
        v = Core.read_field(self, st, obj, attr, node, heap)
        if v.ty.kind == "List" and not self.dry and not self.binders and not self.spec:
            self.assume(self.list_len(v) >= 0, None)
        return v

    # ------------------------------------------------------------------ driver
    def symbolic_param(self, name, ty):
        v = self.fresh_val(ty, "p_" + name)
        v.py = "param"
        wt = self.well_typed(v)
        if wt is not None:
            self.assume(wt)
        if ty.kind == "List":
            self.assume(self.list_len(v) >= 0)
            if self.mode == "UNROLL":
                self.assume(self.list_len(v) <= self.bound)       # unwinding assumption on list-valued parameters
        return v

    def verify(self, qual, prefix=None):
        """generate all obligations of function `qual` against its own contract"""
        c = self.contracts.get(qual)
        if c is None:
            raise Unsupported("no contract for %s" % qual)
        defcls, fn = self.src.get_function(qual)
        self.cur_qual, self.cur_cls = qual, defcls
        self.prefix = prefix or ("%s.%s" % (self.src.module_of(qual), qual))
        self.loop_ids = self.number_loops(fn)
        self.inline_stack = [qual]
        st = State()
        a = fn.args
        params = [x.arg for x in a.args]
        env = {}
        defaults = a.defaults
        first_default = len(params) - len(defaults)
        for i, p in enumerate(params):
            if i == 0 and defcls is not None:
                v = self.symbolic_param(p, TRef(qual.split(".")[0]))
                self.assume(v.z != self.S.null)
                if self.mode == "UNROLL":
                    self.assume(self.cls_of(v.z) == self.class_ids[qual.split(".")[0]])
                env[p] = v
                continue
            if p in c.types:
                env[p] = self.symbolic_param(p, c.types[p])
            elif p in c.fixed:
                env[p] = self.eval_spec_val(c.fixed[p], {}, st)
            elif i >= first_default:
                # parameter not under contract: fixed to its default value (stated in evidence)
                dnode = defaults[i - first_default]
                self.spec += 1
                try:
                    if isinstance(dnode, ast.List) and not dnode.elts:
                        from .core import T_EMPTY
                        env[p] = Val(T_EMPTY, None)
                    else:
                        env[p] = self.ev(dnode, State())
                finally:
                    self.spec -= 1
                self.defaulted_params.append((qual, p))
            else:
                raise Unsupported("parameter %s of %s has no declared type" % (p, qual))
        if a.kwarg is not None:
            from .calls import T_KWARGS
            kw = {}
            for p, t in c.types.items():
                if p.startswith("kw_"):
                    kw[p[3:]] = self.symbolic_param(p, t)
                    env[p] = kw[p[3:]]
            env[a.kwarg.arg] = Val(T_KWARGS, None, py=kw)
        st.env = dict(env)
        self.fn_old_heap = {}
        self.fn_old_env = dict(env)
        self.old_heap, self.old_env = self.fn_old_heap, self.fn_old_env
        for r in c.requires:
            self.assume(self.eval_spec(r, env, st, old_heap=self.fn_old_heap, old_env=env))
        if self.mode == "UNROLL":
            # extra hypotheses of the bounded stand-in only (stated in evidence); callers do not have to establish them
            for r in c.bounded_requires:
                self.assume(self.eval_spec(r, env, st, old_heap=self.fn_old_heap, old_env=env))
        n_pre = len(self.assumptions)
        self.collect_returns = []
        self.exec_block(fn.body, st)
        sites = self.collect_returns
        self.collect_returns = None
        # ---- exit points: every `return` statement (state at that statement) and falling off the end
        exits = []
        for k, (site, v, line) in enumerate(sites):
            exits.append(("r%d" % k, site, v))
        if not is_true(st.ret):
            fall = st.copy()
            fall.written = set(st.written)
            if not is_false(st.ret):
                fall.path.append(z3.Not(zbool(st.ret)))
            fall.ret = False
            fall.ret_val = None
            exits.append(("end", fall, None))
        single = len(exits) == 1
        all_written = set(st.written)
        for tag, est, v in exits:
            all_written |= est.written
        frame = {}
        for key, fp in c.frame(self):
            frame[key] = fp
        for tag, est, v in exits:
            sfx = "" if single else "[%s]" % tag
            live = self.live(est)
            exit_st = self._exit_state(est)
            if not is_true(live):
                exit_st.path.append(zbool(live))
            env2 = dict(env)
            if "@" in qual:
                # a block has no return value: the locals it hands on to the rest of the host are visible to its postconditions
                from .source import BLOCKS
                for name in BLOCKS[qual].get("exports", []):
                    if est.env.get(name) is not None:
                        env2["final_" + name] = est.env[name]
            if c.returns is not None:
                if v is None or v.ty.kind == "None":
                    if c.returns.kind == "Opt":
                        v = Val(TNone, self.S.none_val)       # falling off the end / bare return yields None
                    else:
                        self.oblige("safe", "returns-a-value" + sfx, False, exit_st, fn)
                        continue
                env2["result"] = self.coerce(v, c.returns, fn)
            if not (tag == "end" and len(exits) > 1):
                self.probe("exit-reachable" + sfx, exit_st)
            if c.result_is is not None:
                rv_spec = self.eval_spec_val(c.result_is, env, exit_st, old_heap=self.fn_old_heap, old_env=env)
                self.oblige("post", "result-is" + sfx, self.val_eq(env2["result"], rv_spec), exit_st, fn,
                            info={"clause": "result == " + c.result_is})
            for label, e in c.ensures_labeled:
                if label.startswith("bounded:") and self.mode != "UNROLL":
                    if tag == exits[0][0]:
                        self.bounded_only_clauses.append("%s/%s" % (qual, label))
                    continue
                variants = self.split_on_merged_heap(exit_st)
                if variants is None:
                    g = self.eval_spec(e, env2, exit_st, old_heap=self.fn_old_heap, old_env=env)
                    self.oblige_split("post", label + sfx, g, exit_st, fn, info={"clause": e})
                else:
                    # the exit heap is an if-then-else merge: prove the clause on each branch state separately
                    for vtag, cnd, hv in variants:
                        sv = exit_st.copy()
                        sv.heap = hv
                        sv.path.append(cnd)
                        g = self.eval_spec(e, env2, sv, old_heap=self.fn_old_heap, old_env=env)
                        self.oblige_split("post", "%s%s[%s]" % (label, sfx, vtag), g, sv, fn, info={"clause": e})
            for key in sorted(all_written):
                new_arr = self.heap_arr(exit_st, key)
                old_arr = self.initial_heap_arr(key)
                if new_arr.eq(old_arr):
                    continue
                if key not in frame:
                    self.oblige("frame", "%s.%s%s" % (key[0], key[1], sfx), new_arr == old_arr, exit_st, fn)
                elif frame[key] not in (None, "*"):
                    fpv = self.eval_spec_val(frame[key], env, exit_st, old_heap=self.fn_old_heap, old_env=env)
                    x = self.qvar("r", self.S.Ref)
                    if self.S.ref_consts is not None:
                        g = z3.And(*[z3.Implies(z3.Not(self.in_footprint(cst, fpv)), z3.Select(new_arr, cst) == z3.Select(old_arr, cst))
                                     for cst in self.S.ref_consts])
                    else:
                        g = z3.ForAll([x], z3.Implies(z3.Not(self.in_footprint(x, fpv)), z3.Select(new_arr, x) == z3.Select(old_arr, x)))
                    self.oblige("frame", "%s.%s%s" % (key[0], key[1], sfx), g, exit_st, fn)
        return self.obligations

    def _exit_state(self, st):
        e = st.copy()
        e.ret = False
        e.brk = False
        e.cont = False
        return e

    # ------------------------------------------------------------------ solving
    def base_axioms(self):
        return self.S.lit_axioms()

    def solve(self, ob, timeout_ms=20000, want_model=False, extract=None):
        """discharge one obligation in a forked child under a hard wall-clock limit (z3's own timeout is
        only advisory: some quantifier instantiation loops ignore it for many minutes)"""
        import os, json, select, signal
        r_fd, w_fd = os.pipe()
        t0 = time.time()
        pid = os.fork()
        if pid == 0:
            try:
                os.close(r_fd)
                res = self._solve_here(ob, timeout_ms, want_model, extract)
                os.write(w_fd, json.dumps(res, default=str).encode())
            except BaseException as ex:      # noqa
                try:
                    os.write(w_fd, json.dumps({"result": "unknown", "reason": "solver process error: %s" % ex}).encode())
                except Exception:
                    pass
            finally:
                os._exit(0)
        os.close(w_fd)
        hard = timeout_ms / 1000.0 + 3.0 + (75.0 if self.mode == "INV" else 0.0)   # room for the subset and seed portfolios
        chunks = []
        try:
            while True:
                left = hard - (time.time() - t0)
                if left <= 0:
                    break
                rl, _, _ = select.select([r_fd], [], [], left)
                if not rl:
                    break
                data = os.read(r_fd, 1 << 20)
                if not data:
                    break
                chunks.append(data)
        finally:
            os.close(r_fd)
            try:
                os.kill(pid, signal.SIGKILL)
            except Exception:
                pass
            try:
                os.waitpid(pid, 0)
            except Exception:
                pass
        ob.time = time.time() - t0
        ob.backend = "z3-%s" % z3.get_version_string()
        if not chunks:
            ob.result, ob.reason = "unknown", "hard timeout (solver killed after %.0fs)" % hard
            return ob.result
        try:
            res = json.loads(b"".join(chunks).decode())
        except Exception as ex:
            ob.result, ob.reason = "unknown", "unreadable solver answer: %s" % ex
            return ob.result
        ob.result = res.get("result", "unknown")
        ob.reason = res.get("reason")
        ob.model = res.get("model")
        ob.model_error = res.get("model_error")
        return ob.result

    def _solve_here(self, ob, timeout_ms, want_model, extract):
        s = z3.Solver()
        s.set("timeout", timeout_ms)
        seed = getattr(ob, "seed", None)
        if seed is not None:
            s.set("random_seed", seed)
            z3.set_param("smt.random_seed", seed)
        for a in self.base_axioms():
            s.add(a)
        batch = getattr(ob, "batch", None)
        if batch:
            # consecutive obligations proved together: assumptions up to the last one, minus the assumptions that
            # were derived from the goals of the batch itself (no circular reasoning)
            lo = batch[0].n_assump
            hi = batch[-1].n_assump
            for i, a in enumerate(self.assumptions[:hi]):
                if i >= lo and i in self.goal_assumptions:
                    continue
                s.add(a)
            goals = []
            for o in batch:
                g = o.goal
                if o.path:
                    g = z3.Implies(z3.And(*o.path) if len(o.path) > 1 else o.path[0], g)
                goals.append(g)
            s.add(z3.Not(z3.And(*goals)))
        else:
            # portfolio over assumption subsets (dropping hypotheses is sound): large quantified assumptions that are
            # irrelevant to the goal otherwise cause instantiation storms
            if not want_model and self.mode == "INV" and ob.kind != "probe" and len(self.assumptions[:ob.n_assump]) > 25:
                for cap, slice_ms in ((80, min(3000, timeout_ms // 4)), (400, min(6000, timeout_ms // 3))):
                    s2 = z3.Solver()
                    s2.set("timeout", slice_ms)
                    for a in self.base_axioms():
                        s2.add(a)
                    for a in self.assumptions[:ob.n_assump]:
                        if term_size(a, cap) < cap:
                            s2.add(a)
                    for p in ob.path:
                        s2.add(p)
                    s2.add(z3.Not(ob.goal))
                    if s2.check() == z3.unsat:
                        return {"result": "unsat", "portfolio": "assumptions with fewer than %d nodes" % cap}
                # seed portfolio on the medium subset: quantifier instantiation is sensitive to the solver's random seed (measured: the
                # same obligation is proved in 0.1-1.4 s with 4 of 12 seeds and never with the others).  Each attempt is limited by
                # z3's deterministic resource counter, not by the clock, so the outcome does not depend on machine load.
                for sd in (range(1, 11) if not getattr(self, "cheap_mode", False) else ()):
                    z3.set_param("smt.random_seed", sd)
                    s2 = z3.Solver()
                    s2.set("random_seed", sd)
                    s2.set("rlimit", 3000000)
                    s2.set("timeout", max(20000, timeout_ms))
                    for a in self.base_axioms():
                        s2.add(a)
                    for a in self.assumptions[:ob.n_assump]:
                        if term_size(a, 400) < 400:
                            s2.add(a)
                    for p in ob.path:
                        s2.add(p)
                    s2.add(z3.Not(ob.goal))
                    if s2.check() == z3.unsat:
                        return {"result": "unsat", "portfolio": "assumptions with fewer than 400 nodes, random seed %d" % sd}
                z3.set_param("smt.random_seed", 0)
            for a in self.assumptions[:ob.n_assump]:
                s.add(a)
            for p in ob.path:
                s.add(p)
            s.add(z3.Not(ob.goal))
            if getattr(self, "cheap_mode", False) and not want_model:
                s.set("timeout", min(timeout_ms, 5000))
        r = s.check()
        out = {"result": "unsat" if r == z3.unsat else ("sat" if r == z3.sat else "unknown")}
        if r == z3.unknown:
            out["reason"] = s.reason_unknown()
        if r == z3.sat and want_model and extract is not None:
            try:
                out["model"] = extract(self, s.model())
            except Exception as ex:
                out["model_error"] = "%s: %s" % (type(ex).__name__, ex)
        return out

    def solve_many(self, jobs_list, nproc=8):
        """jobs_list: [(ob, timeout_ms, want_model, extract)]; runs up to nproc forked solvers concurrently"""
        import os, json, select, signal
        pending = list(jobs_list)
        running = {}        # fd -> (pid, ob, t0, hard, chunks)
        def start(job):
            ob, timeout_ms, want_model, extract = job
            r_fd, w_fd = os.pipe()
            pid = os.fork()
            if pid == 0:
                try:
                    os.close(r_fd)
                    res = self._solve_here(ob, timeout_ms, want_model, extract)
                    os.write(w_fd, json.dumps(res, default=str).encode())
                except BaseException as ex:      # noqa
                    try:
                        os.write(w_fd, json.dumps({"result": "unknown", "reason": "solver process error: %s" % ex}).encode())
                    except Exception:
                        pass
                finally:
                    os._exit(0)
            os.close(w_fd)
            running[r_fd] = [pid, ob, time.time(), timeout_ms / 1000.0 + 3.0 + (75.0 if self.mode == "INV" else 0.0), []]

        def finish(fd, killed=False):
            pid, ob, t0, hard, chunks = running.pop(fd)
            os.close(fd)
            try:
                os.kill(pid, signal.SIGKILL)
            except Exception:
                pass
            try:
                os.waitpid(pid, 0)
            except Exception:
                pass
            ob.time = time.time() - t0
            ob.backend = "z3-%s" % z3.get_version_string()
            if not chunks:
                ob.result, ob.reason = "unknown", "hard timeout (solver killed after %.0fs)" % hard
                if ob.kind != "probe":
                    self.open_count = getattr(self, "open_count", 0) + 1
                    if self.open_count >= 12:
                        self.cheap_mode = True
                return
            try:
                res = json.loads(b"".join(chunks).decode())
            except Exception as ex:
                ob.result, ob.reason = "unknown", "unreadable solver answer: %s" % ex
                return
            ob.result = res.get("result", "unknown")
            ob.reason = res.get("reason")
            ob.model = res.get("model")
            ob.model_error = res.get("model_error")
            if ob.result != "unsat" and ob.kind != "probe":
                # once a unit has a dozen open obligations its verdict is settled: the remaining ones get the cheap stages only
                self.open_count = getattr(self, "open_count", 0) + 1
                if self.open_count >= 12:
                    self.cheap_mode = True

        while pending or running:
            while pending and len(running) < nproc:
                start(pending.pop(0))
            now = time.time()
            timeout = min([max(0.0, r[2] + r[3] - now) for r in running.values()] + [1.0])
            rl, _, _ = select.select(list(running.keys()), [], [], timeout)
            for fd in rl:
                data = os.read(fd, 1 << 20)
                if data:
                    running[fd][4].append(data)
                else:
                    finish(fd)
            now = time.time()
            for fd in list(running.keys()):
                r = running[fd]
                if now > r[2] + r[3]:
                    finish(fd, killed=True)

    def to_smt2(self, ob):
        s = z3.Solver()
        for a in self.base_axioms():
            s.add(a)
        for a in self.assumptions[:ob.n_assump]:
            s.add(a)
        for p in ob.path:
            s.add(p)
        s.add(z3.Not(ob.goal))
        return s.to_smt2()
