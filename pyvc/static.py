"""Static obligations: decided on the AST / call graph of the current /repo sources (DESIGN.md 3.2 kind `static`).

Every function returns a list of obligation records {name, kind='static', result 'unsat' (holds) | 'sat' (refuted),
time, backend, details}.
"""
import ast
import os
import time

from .source import Source, REPO


def rec(name, ok, details="", line=None):
    return {"name": "static/" + name, "kind": "static", "result": "unsat" if ok else "sat", "time": 0.0,
            "backend": "static-ast", "reason": None if ok else details, "details": details, "line": line,
            "clause": details}


_SRC = None


def src():
    global _SRC
    if _SRC is None:
        _SRC = Source()
    return _SRC


# ---------------------------------------------------------------------------------- A2 / A3 / schema
def plain_attributes():
    """A2/A3: no property/__getattr__/__setattr__/descriptor/__eq__/__hash__ in pDESy/model"""
    out = []
    bad_defs = {"__getattr__", "__getattribute__", "__setattr__", "__delattr__", "__eq__", "__hash__", "__lt__",
                "__le__", "__gt__", "__ge__", "__ne__", "__get__", "__set__", "__slots__", "__bool__", "__len__",
                "__iter__", "__contains__", "__getitem__"}
    hits = []
    for mod, tree in src().modules.items():
        for n in ast.walk(tree):
            if isinstance(n, ast.FunctionDef) and n.name in bad_defs:
                hits.append("%s.py:%d def %s" % (mod, n.lineno, n.name))
            if isinstance(n, ast.FunctionDef):
                for d in n.decorator_list:
                    dn = d.id if isinstance(d, ast.Name) else getattr(d, "attr", "")
                    if dn in ("property", "setter", "cached_property", "staticmethod", "classmethod"):
                        hits.append("%s.py:%d @%s %s" % (mod, n.lineno, dn, n.name))
            if isinstance(n, ast.Call) and isinstance(n.func, ast.Name) and n.func.id in ("setattr", "getattr", "delattr", "eval", "exec", "vars", "id", "hash"):
                hits.append("%s.py:%d call %s()" % (mod, n.lineno, n.func.id))
            if isinstance(n, ast.Attribute) and n.attr in ("__dict__", "__slots__"):
                hits.append("%s.py:%d %s" % (mod, n.lineno, n.attr))
    out.append(rec("plain-attributes", not hits, "; ".join(hits)))
    return out


def schema_complete():
    """every attribute assigned through `self.` in the model is listed in contracts/schema.py and vice versa"""
    from contracts.schema import SCHEMA
    out = []
    s = src()
    for cname, ci in s.classes.items():
        if ci.is_enum:
            continue
        assigned = set()
        for m in ci.methods.values():
            for n in ast.walk(m):
                if isinstance(n, ast.Attribute) and isinstance(n.value, ast.Name) and n.value.id == "self" \
                        and isinstance(n.ctx, ast.Store):
                    assigned.add(n.attr)
        known = set()
        for c in s.mro(cname):
            known |= set(SCHEMA.get(c, {}))
        missing = sorted(assigned - known)
        out.append(rec("schema.%s" % cname, not missing, "attributes assigned but not in the type schema: %s" % missing))
    return out


# ---------------------------------------------------------------------------------- C19
def c19_margin_additive():
    """finish_margin occurs in the four run-length encoders only as `<int expr> + finish_margin` in the length
    component of an appended entry: the encoders are parametric in the margin, so the integer-margin proof
    carries over to real-valued margins (DESIGN 6/C19)."""
    out = []
    s = src()
    for cls in ("BaseTask", "BaseComponent", "BaseWorker", "BaseFacility"):
        _, fn = s.get_function(cls + ".get_time_list_for_gannt_chart")
        parents = {}
        for n in ast.walk(fn):
            for c in ast.iter_child_nodes(n):
                parents[id(c)] = n
        bad = []
        for n in ast.walk(fn):
            if isinstance(n, ast.Name) and n.id == "finish_margin" and isinstance(n.ctx, ast.Load):
                p = parents.get(id(n))
                ok = isinstance(p, ast.BinOp) and isinstance(p.op, ast.Add) and p.right is n \
                    and not any(isinstance(x, ast.Name) and x.id == "finish_margin" for x in ast.walk(p.left))
                if ok:
                    pp = parents.get(id(p))
                    ok = isinstance(pp, ast.Tuple) and len(pp.elts) == 2 and pp.elts[1] is p
                    if ok:
                        call = parents.get(id(pp))
                        ok = isinstance(call, ast.Call) and isinstance(call.func, ast.Attribute) and call.func.attr == "append"
                if not ok:
                    bad.append(n.lineno)
            if isinstance(n, (ast.Assign, ast.AugAssign)):
                tg = n.targets if isinstance(n, ast.Assign) else [n.target]
                for t in tg:
                    for x in ast.walk(t):
                        if isinstance(x, ast.Name) and x.id == "finish_margin":
                            bad.append(n.lineno)
        out.append(rec("margin-additive.%s" % cls, not bad, "finish_margin used non-additively at lines %s" % bad))
    return out


# ---------------------------------------------------------------------------------- call graph / write sets
MUT = {"append", "extend", "insert", "pop", "remove", "add", "update", "clear", "sort", "reverse"}


def _functions():
    """(cls or None, name) -> FunctionDef for all model functions"""
    out = {}
    s = src()
    for c, ci in s.classes.items():
        if ci.is_enum:
            continue
        for m, fn in ci.methods.items():
            out[(c, m)] = fn
    for f, (mod, fn) in s.functions.items():
        out[(None, f)] = fn
    return out


def direct_writes(fn):
    """attribute names written (assigned, deleted or mutated in place) directly in fn, with line numbers"""
    w = {}
    for n in ast.walk(fn):
        if isinstance(n, ast.Attribute) and isinstance(n.ctx, (ast.Store, ast.Del)):
            w.setdefault(n.attr, []).append(n.lineno)
        if isinstance(n, ast.Call) and isinstance(n.func, ast.Attribute) and n.func.attr in MUT \
                and isinstance(n.func.value, ast.Attribute):
            w.setdefault(n.func.value.attr, []).append(n.lineno)
        if isinstance(n, ast.Subscript) and isinstance(n.ctx, ast.Store) and isinstance(n.value, ast.Attribute):
            w.setdefault(n.value.attr, []).append(n.lineno)
    return w


def direct_reads(fn):
    r = set()
    for n in ast.walk(fn):
        if isinstance(n, ast.Attribute) and isinstance(n.ctx, ast.Load):
            r.add(n.attr)
    return r


def callees(fn):
    """method / function names called in fn (resolved by name over all model classes: conservative)"""
    out = set()
    for n in ast.walk(fn):
        if isinstance(n, ast.Call):
            if isinstance(n.func, ast.Attribute):
                out.add(n.func.attr)
            elif isinstance(n.func, ast.Name):
                out.add(n.func.id)
    return out


def reachable(roots, stop=()):
    """all (cls, name) reachable from the root functions by name resolution"""
    fns = _functions()
    by_name = {}
    for (c, m), fn in fns.items():
        by_name.setdefault(m, []).append((c, m))
        if c is not None and m.startswith("__") and not m.endswith("__"):
            by_name.setdefault(m, [])
    seen = set()
    todo = list(roots)
    while todo:
        k = todo.pop()
        if k in seen or k not in fns:
            continue
        seen.add(k)
        for name in callees(fns[k]):
            if name in stop or name.startswith(("plot_", "create_", "draw_", "print_", "get_networkx", "get_node_and")):
                continue
            if name in src().classes and (name, "__init__") in fns:
                todo.append((name, "__init__"))
            for k2 in by_name.get(name, []):
                todo.append(k2)
    return seen


def write_set(roots, stop=()):
    fns = _functions()
    ws = {}
    for k in reachable(roots, stop):
        for a, lines in direct_writes(fns[k]).items():
            ws.setdefault(a, []).append("%s.%s:%s" % (k[0] or "", k[1], lines[0]))
    return ws


# ---------------------------------------------------------------------------------- C09
def c09_identity_scan():
    """C09(b): no `is`/`is not` between values that are not None/True/False/enum members, no id()/hash() in the model"""
    hits = []
    enums = {c for c, ci in src().classes.items() if ci.is_enum}
    for mod, tree in src().modules.items():
        for n in ast.walk(tree):
            if isinstance(n, ast.Compare):
                operands = [n.left] + list(n.comparators)
                for i, op in enumerate(n.ops):
                    if isinstance(op, (ast.Is, ast.IsNot)):
                        a, b = operands[i], operands[i + 1]

                        def singleton(x):
                            if isinstance(x, ast.Constant) and (x.value is None or isinstance(x.value, bool)):
                                return True
                            return isinstance(x, ast.Attribute) and isinstance(x.value, ast.Name) and x.value.id in enums
                        if not (singleton(a) or singleton(b)):
                            hits.append("%s.py:%d `%s`" % (mod, n.lineno, ast.unparse(n)[:60]))
            if isinstance(n, ast.Call) and isinstance(n.func, ast.Name) and n.func.id in ("id", "hash"):
                hits.append("%s.py:%d %s()" % (mod, n.lineno, n.func.id))
    return [rec("C09.no-identity-dependence", not hits, "; ".join(hits))]


def c09_set_order_unobservable():
    """C09(a): on the simulation path, the iteration order of a python set (hash order: object addresses, per-process string
    hashes) must not be observable.  Syntactic, conservative: a loop or comprehension over a local that is built as a set may
    only write attributes / add to sets; it may not accumulate numbers (float addition is not associative), build an ordered
    container, or stop early (first-match semantics)."""
    fns = _functions()
    hits = []
    for k in sorted(reachable([("BaseProject", "simulate"), ("BaseProject", "backward_simulate")]), key=lambda x: (x[0] or "", x[1])):
        fn = fns[k]
        setnames = set()
        for n in ast.walk(fn):
            if isinstance(n, ast.Assign) and len(n.targets) == 1 and isinstance(n.targets[0], ast.Name):
                v = n.value
                if isinstance(v, (ast.Set, ast.SetComp)) or (isinstance(v, ast.Call) and isinstance(v.func, ast.Name)
                                                                 and v.func.id in ("set", "frozenset")):
                    setnames.add(n.targets[0].id)
        if not setnames:
            continue
        where = "%s.%s" % (k[0] or "", k[1])

        def is_set(x):
            return (isinstance(x, ast.Name) and x.id in setnames) or isinstance(x, (ast.Set, ast.SetComp)) or (
                isinstance(x, ast.Call) and isinstance(x.func, ast.Name) and x.func.id in ("set", "frozenset"))
        for n in ast.walk(fn):
            if isinstance(n, ast.For) and is_set(n.iter):
                for b in n.body:
                    for m in ast.walk(b):
                        if isinstance(m, ast.AugAssign) and isinstance(m.target, ast.Name):
                            hits.append("%s:%d accumulates `%s` while iterating the set `%s`" % (where, m.lineno, ast.unparse(m)[:40], ast.unparse(n.iter)[:30]))
                        if isinstance(m, ast.Call) and isinstance(m.func, ast.Attribute) and m.func.attr in ("append", "extend", "insert"):
                            hits.append("%s:%d builds an ordered container (`%s`) while iterating the set `%s`" % (where, m.lineno, ast.unparse(m)[:40], ast.unparse(n.iter)[:30]))
                        if isinstance(m, ast.Return):
                            hits.append("%s:%d leaves the iteration over the set `%s` early" % (where, m.lineno, ast.unparse(n.iter)[:30]))
                    own = [b]
                    while own:                       # `break` of this loop itself (not of a loop nested in its body)
                        m = own.pop()
                        if isinstance(m, ast.Break):
                            hits.append("%s:%d leaves the iteration over the set `%s` early" % (where, m.lineno, ast.unparse(n.iter)[:30]))
                        if not isinstance(m, (ast.For, ast.While)):
                            own += list(ast.iter_child_nodes(m))
            if isinstance(n, (ast.ListComp, ast.GeneratorExp, ast.DictComp)):
                for g in n.generators:
                    if is_set(g.iter):
                        hits.append("%s:%d ordered comprehension over the set `%s`" % (where, n.lineno, ast.unparse(g.iter)[:30]))
            if isinstance(n, ast.Call) and isinstance(n.func, ast.Name) and n.func.id in ("list", "tuple", "sum", "next", "iter", "enumerate", "zip") \
                    and n.args and is_set(n.args[0]):
                hits.append("%s:%d %s() over the set `%s`" % (where, n.lineno, n.func.id, ast.unparse(n.args[0])[:30]))
    return [rec("C09.set-iteration-order-unobservable", not hits, "; ".join(hits))]


def c09_mutable_defaults():
    """C09(d)/C18: a parameter with a mutable literal default that is stored in an attribute without copying must not be
    mutated in place anywhere in the model (state would leak between calls and between projects)"""
    fns = _functions()
    mutated = {}
    for k, fn in fns.items():
        for n in ast.walk(fn):
            if isinstance(n, ast.Call) and isinstance(n.func, ast.Attribute) and n.func.attr in MUT \
                    and isinstance(n.func.value, ast.Attribute):
                mutated.setdefault(n.func.value.attr, []).append("%s.%s:%d" % (k[0] or "", k[1], n.lineno))
    out = []
    for k, fn in fns.items():
        a = fn.args
        params = [x.arg for x in a.args]
        defaults = dict(zip(params[len(params) - len(a.defaults):], a.defaults))
        for p, d in defaults.items():
            if not isinstance(d, (ast.List, ast.Dict, ast.Set)):
                continue
            stored = []
            for n in ast.walk(fn):
                if isinstance(n, ast.Assign) and len(n.targets) == 1 and isinstance(n.targets[0], ast.Attribute):
                    v = n.value
                    direct = isinstance(v, ast.Name) and v.id == p
                    cond = isinstance(v, ast.IfExp) and ((isinstance(v.body, ast.Name) and v.body.id == p) or
                                                         (isinstance(v.orelse, ast.Name) and v.orelse.id == p))
                    if direct or cond:
                        stored.append(n.targets[0].attr)
            bad = [(attr, mutated[attr]) for attr in stored if attr in mutated]
            out.append(rec("C09.default-argument-not-shared.%s.%s(%s)" % (k[0] or "", k[1], p), not bad,
                           "default %s of %s is stored in %s and mutated in place at %s" % (
                               ast.unparse(d), p, [b[0] for b in bad], [b[1][:3] for b in bad]), fn.lineno))
    return out


def c09_reset_fields():
    """C09(c): every attribute written on the simulation path is reset by initialize(True, True) or overwritten from the
    arguments of simulate before the main loop"""
    ws = write_set([("BaseProject", "simulate")], stop=("initialize",))
    rs = write_set([("BaseProject", "initialize")])
    s = src()
    _, sim = s.get_function("BaseProject.simulate")
    from_args = set()
    for st in sim.body:
        if isinstance(st, ast.While):
            break
        if isinstance(st, ast.Assign) and isinstance(st.targets[0], ast.Attribute):
            from_args.add(st.targets[0].attr)
    out = []
    for a in sorted(ws):
        ok = a in rs or a in from_args
        out.append(rec("C09.reset.%s" % a, ok, "attribute `%s` is written during simulate (%s) but not reset by initialize(True, True) "
                                              "nor assigned from the arguments" % (a, ws[a][:3])))
    return out


# ---------------------------------------------------------------------------------- C15
def c15_no_loop_carried_locals():
    """C15(1): the main loop of simulate carries no state in local variables (everything lives in attributes)"""
    s = src()
    _, sim = s.get_function("BaseProject.simulate")
    loop = [n for n in sim.body if isinstance(n, ast.While)][0]
    assigned = set()
    comp_bound = set()
    for n in ast.walk(loop):
        if isinstance(n, (ast.ListComp, ast.GeneratorExp, ast.SetComp, ast.DictComp)):
            for g in n.generators:
                for x in ast.walk(g.target):
                    if isinstance(x, ast.Name):
                        comp_bound.add(id(x))
                        comp_bound.add(x.id)
        if isinstance(n, ast.Lambda):
            for x in n.args.args:
                comp_bound.add(x.arg)
    for n in ast.walk(loop):
        if isinstance(n, ast.Name) and isinstance(n.ctx, ast.Store) and n.id not in comp_bound:
            assigned.add(n.id)
    problems = []

    def loads(node):
        return [x for x in ast.walk(node) if isinstance(x, ast.Name) and isinstance(x.ctx, ast.Load) and x.id in assigned]

    def stores(node):
        return {x.id for x in ast.walk(node) if isinstance(x, ast.Name) and isinstance(x.ctx, ast.Store)}

    def walk(stmts, defined):
        for st in stmts:
            if isinstance(st, ast.If):
                for x in loads(st.test):
                    if x.id not in defined:
                        problems.append((x.id, x.lineno))
                d1 = walk(st.body, set(defined))
                d2 = walk(st.orelse, set(defined))
                defined |= (d1 & d2)
            elif isinstance(st, (ast.For, ast.While)):
                walk(st.body, set(defined) | stores(st.target) if isinstance(st, ast.For) else set(defined))
            else:
                if isinstance(st, ast.Assign):
                    for x in loads(st.value):
                        if x.id not in defined:
                            problems.append((x.id, x.lineno))
                    defined |= stores(st)
                else:
                    for x in loads(st):
                        if x.id not in defined:
                            problems.append((x.id, x.lineno))
                    defined |= stores(st)
        return defined
    walk(loop.body, set())
    return [rec("C15.no-loop-carried-locals", not problems,
                "local variables read in the main loop before being assigned in the same iteration: %s" % problems)]


# ---------------------------------------------------------------------------------- C17
def c17_structure_not_in_frame():
    """C17(b,c): simulate (and everything it calls) never writes the dependency / workplace link structure, so an exception
    inside the inner run cannot leave it half-edited; backward_simulate's own edits are undone in its finally block"""
    ws = write_set([("BaseProject", "simulate")])
    structure = ["input_task_list", "output_task_list", "task_list", "input_workplace_list", "output_workplace_list",
                 "dummy_input_task_list", "dummy_output_task_list"]
    out = []
    for a in structure:
        out.append(rec("C17.simulate-does-not-write.%s" % a, a not in ws, "written at %s" % ws.get(a)))
    # the finally block restores: reverse_dependencies twice, helper tasks removed
    s = src()
    _, bw = s.get_function("BaseProject.backward_simulate")
    tr = [n for n in ast.walk(bw) if isinstance(n, ast.Try)]
    ok = bool(tr)
    details = ""
    if ok:
        fin = tr[0].finalbody
        fin_calls = [x.func.attr for n in fin for x in ast.walk(n) if isinstance(x, ast.Call) and isinstance(x.func, ast.Attribute)]
        pre_calls = []
        for st in bw.body:
            if st is tr[0]:
                break
            pre_calls += [x.func.attr for x in ast.walk(st) if isinstance(x, ast.Call) and isinstance(x.func, ast.Attribute)]
        ok = fin_calls.count("reverse_dependencies") == pre_calls.count("reverse_dependencies") == 2 and "remove" in fin_calls
        details = "before try: %s; finally: %s" % (pre_calls, fin_calls)
    out.append(rec("C17.finally-restores-structure", ok, details))
    return out


# ---------------------------------------------------------------------------------- C08
def c08_log_table():
    """C08: every per-step log of the schema is appended by a record/add_labor_cost method of its class and handled by
    initialize(log_info), reverse_log_information, remove_absence_time_list and insert_absence_time_list"""
    from contracts.schema import log_table
    fns = _functions()
    out = []
    for cls, attr in log_table():
        def writes_in(pred):
            hits = []
            for (c, m), fn in fns.items():
                if c == cls and pred(m) and attr in direct_writes(fn):
                    hits.append(m)
            return hits
        owner = {("BaseWorker", "cost_list"): "BaseTeam", ("BaseFacility", "cost_list"): "BaseWorkplace"}.get((cls, attr))
        if owner:
            # members' cost entries are appended by the add_labor_cost of the owning team / workplace
            hits = [m for (c, m), fn in fns.items() if c == owner and m == "add_labor_cost" and attr in direct_writes(fn)]
            out.append(rec("C08.log-table.%s.%s.append" % (cls, attr), bool(hits), "%s.add_labor_cost does not append to member cost_list" % owner))
            need = {}
        elif cls == "BaseProject":
            # project.cost_list: appended in simulate, reset in initialize, reversed, edited by the absence functions
            need = {"append": lambda m: m == "simulate"}
        else:
            need = {"append": lambda m: m.startswith("record") or m == "add_labor_cost"}
        need.update({"initialize": lambda m: m == "initialize", "reverse": lambda m: m == "reverse_log_information",
                     "remove_absence": lambda m: m == "remove_absence_time_list", "insert_absence": lambda m: m == "insert_absence_time_list"})
        for what, pred in need.items():
            hits = writes_in(pred)
            out.append(rec("C08.log-table.%s.%s.%s" % (cls, attr, what), bool(hits), "no %s function of %s writes %s" % (what, cls, attr)))
    return out


# ---------------------------------------------------------------------------------- C16 (JSON save / load)
def _exported(cls):
    """key -> (expression source, attributes of self read) for C.export_dict_json_data, following super()"""
    s = src()
    out = {}
    for c in reversed(s.mro(cls)):
        ci = s.classes[c]
        fn = ci.methods.get("export_dict_json_data")
        if fn is None:
            continue
        for n in ast.walk(fn):
            if isinstance(n, ast.Call) and isinstance(n.func, ast.Attribute) and n.func.attr == "update":
                for kw in n.keywords:
                    if kw.arg:
                        out[kw.arg] = kw.value
            if isinstance(n, ast.Assign) and isinstance(n.targets[0], ast.Subscript) \
                    and isinstance(n.targets[0].slice, ast.Constant):
                out[n.targets[0].slice.value] = n.value
    return out


def _self_attrs(node):
    return {x.attr for x in ast.walk(node) if isinstance(x, ast.Attribute) and isinstance(x.value, ast.Name) and x.value.id == "self"}


def _init_assigned(cls):
    """attributes definitely assigned by __init__ (own and inherited through super().__init__)"""
    s = src()
    out = set()
    for c in s.mro(cls):
        fn = s.classes[c].methods.get("__init__")
        if fn is None:
            continue

        def walk(stmts):
            d = set()
            for st in stmts:
                if isinstance(st, ast.If):
                    d |= (walk(st.body) & walk(st.orelse))
                elif isinstance(st, ast.Assign):
                    for t in st.targets:
                        if isinstance(t, ast.Attribute) and isinstance(t.value, ast.Name) and t.value.id == "self":
                            d.add(t.attr)
            return d
        out |= walk(fn.body)
        calls_super = any(isinstance(x, ast.Call) and isinstance(x.func, ast.Attribute) and x.func.attr == "__init__"
                          for x in ast.walk(fn))
        if not calls_super:
            break
    return out


def _ctor_param_attr(cls):
    """constructor parameter -> attribute it is stored in (by `self.attr = ... param ...`)"""
    s = src()
    out = {}
    for c in s.mro(cls):
        fn = s.classes[c].methods.get("__init__")
        if fn is None:
            continue
        params = [a.arg for a in fn.args.args[1:]]
        for n in ast.walk(fn):
            if isinstance(n, ast.Assign) and isinstance(n.targets[0], ast.Attribute) and isinstance(n.targets[0].value, ast.Name) \
                    and n.targets[0].value.id == "self":
                for x in ast.walk(n.value):
                    if isinstance(x, ast.Name) and x.id in params:
                        out.setdefault(x.id, n.targets[0].attr)
    return out


def _ctor_calls():
    """constructor calls inside read_* functions: class -> list of {param: json key or None}"""
    s = src()
    out = {}
    for (c, m), fn in _functions().items():
        if not (m.startswith("read_") or m.startswith("append_project_log")):
            continue
        for n in ast.walk(fn):
            if isinstance(n, ast.Call) and isinstance(n.func, ast.Name) and n.func.id in s.classes and not s.classes[n.func.id].is_enum:
                kws = {}
                for kw in n.keywords:
                    keys = [x.slice.value for x in ast.walk(kw.value) if isinstance(x, ast.Subscript) and isinstance(x.slice, ast.Constant)
                            and isinstance(x.slice.value, str)]
                    kws[kw.arg] = keys[0] if keys else None
                out.setdefault(n.func.id, []).append(("%s.%s:%d" % (c, m, n.lineno), kws))
    return out


SIM_CLASSES = ["BaseTask", "BaseSubProjectTask", "BaseComponent", "BaseWorker", "BaseFacility", "BaseTeam", "BaseWorkplace"]


def c16_definite_assignment():
    """C16(d): writing never fails: every attribute read by export_dict_json_data is assigned by __init__ on all paths"""
    out = []
    for cls in SIM_CLASSES + ["BaseWorkflow", "BaseProduct", "BaseOrganization"]:
        exp = _exported(cls)
        read = set()
        for v in exp.values():
            read |= _self_attrs(v)
        missing = sorted(read - _init_assigned(cls) - {"__class__"})
        out.append(rec("C16.export-reads-only-initialised-attributes.%s" % cls, not missing,
                       "export_dict_json_data reads %s which __init__ does not assign (AttributeError when writing)" % missing))
    return out


def c16_read_keys_exported():
    """C16(a): every json key used when loading is written when saving (no KeyError on load)"""
    out = []
    for cls, calls in _ctor_calls().items():
        exp = set(_exported(cls))
        for where, kws in calls:
            missing = sorted(k for k in kws.values() if k is not None and k not in exp)
            out.append(rec("C16.load-reads-only-saved-keys.%s@%s" % (cls, where.split(":")[0]), not missing,
                           "%s reads keys %s that export_dict_json_data of %s does not write" % (where, missing, cls)))
    return out


# constructor parameters that need not be saved: back-pointers rebuilt when the model is linked / initialised, and the
# inputs of the random quality model, which only feed BaseComponent.error (never saved, never read by any property)
DERIVED_OR_UNOBSERVABLE = {"parent_workflow", "parent_product", "error", "error_tolerance", "quality_skill_mean_map",
                           "quality_skill_sd_map", "additional_work_amount", "additional_task_flag", "actual_work_amount"}


def c16_export_faithful():
    """C16: an exported value is the attribute itself, a conversion of it or a comprehension over it - never a value that depends
    on the TRUTHINESS of the attribute (`x if self.f else None`, `self.f or []`): an empty list, 0 or 0.0 are legitimate settings
    that python treats as false, so such an export cannot be inverted by the reader.  Tests against None are fine."""
    s = src()
    out = []
    for cname in sorted(s.classes):
        ci = s.classes[cname]
        if ci.is_enum or "export_dict_json_data" not in ci.methods:
            continue
        hits = []
        for key, expr in _exported(cname).items():
            for n in ast.walk(expr):
                tests = []
                if isinstance(n, ast.IfExp):
                    tests.append(n.test)
                if isinstance(n, ast.BoolOp):
                    tests += n.values[:-1]
                if isinstance(n, ast.comprehension):
                    tests += list(n.ifs)
                for t in tests:
                    bare = t.operand if isinstance(t, ast.UnaryOp) and isinstance(t.op, ast.Not) else t
                    if isinstance(bare, (ast.Attribute, ast.Name, ast.Subscript)):
                        hits.append("%s: `%s` is tested for truthiness in `%s`" % (key, ast.unparse(bare), ast.unparse(expr)[:70]))
        out.append(rec("C16.export-does-not-depend-on-truthiness.%s" % cname, not hits, "; ".join(hits)))
    return out


def c16_restore_in_saved_order():
    """C16 / C15: read_simple_json first stores the saved ID lists in the attributes and then resolves them to objects.  Every such
    resolution `x.a = [lookup(ID) for ID in x.a]` must iterate over the saved list itself, without a filter: then the restored list
    has the saved length and order (the i-th worker and the i-th facility of a task form a pair; placement order is part of the
    saved state).  A list rebuilt by filtering some other collection has that collection's order."""
    s = src()
    hits, n = [], 0
    try:
        _, fn = s.get_function("BaseProject.read_simple_json")
    except KeyError:
        return [rec("C16.references-restored-in-saved-order", False, "BaseProject.read_simple_json not found")]
    for node in ast.walk(fn):
        if isinstance(node, ast.Assign) and len(node.targets) == 1 and isinstance(node.targets[0], ast.Attribute) \
                and isinstance(node.value, (ast.ListComp, ast.GeneratorExp)):
            tgt = node.targets[0]
            comp = node.value
            n += 1
            g = comp.generators[0]
            ok = (len(comp.generators) == 1 and not g.ifs and isinstance(g.iter, ast.Attribute) and g.iter.attr == tgt.attr
                  and ast.unparse(g.iter.value) == ast.unparse(tgt.value))
            if not ok:
                hits.append("line %d: %s.%s is rebuilt from `%s`%s, not from the saved list itself" % (
                    node.lineno, ast.unparse(tgt.value), tgt.attr, ast.unparse(g.iter)[:40], " with a filter" if g.ifs else ""))
    if n == 0:
        hits.append("no ID-resolution statement found (shape of read_simple_json changed)")
    return [rec("C16.references-restored-in-saved-order", not hits, "; ".join(hits))]


def c16_format_complete():
    """C16(c): every constructor parameter whose attribute is read on the simulation path is saved and passed back on load"""
    fns = _functions()
    sim_reads = set()
    for k in reachable([("BaseProject", "simulate")]):
        sim_reads |= direct_reads(fns[k])
    calls = _ctor_calls()
    out = []
    for cls in SIM_CLASSES:
        pa = _ctor_param_attr(cls)
        exp = _exported(cls)
        exported_attrs = {}
        for key, v in exp.items():
            for a in _self_attrs(v):
                exported_attrs.setdefault(a, key)
        loaded = set()
        for where, kws in calls.get(cls, []):
            loaded |= set(kws)
        for p, attr in sorted(pa.items()):
            if attr not in sim_reads:
                continue
            if attr in DERIVED_OR_UNOBSERVABLE:
                continue
            ok = attr in exported_attrs and p in loaded
            why = []
            if attr not in exported_attrs:
                why.append("not written by export_dict_json_data")
            if p not in loaded:
                why.append("not passed to the constructor on load")
            out.append(rec("C16.saved-format-complete.%s.%s" % (cls, p), ok,
                           "constructor parameter %s (attribute %s, read during simulation) is %s" % (p, attr, " and ".join(why))))
    return out


# ---------------------------------------------------------------------------------- C20 arithmetic lemma
def c20_ceil_lemma():
    """C20: an automatic task with work D and rate p (remaining work D - p*j after j working steps, finishing at the
    first step with remaining < tol) occupies exactly ceil(D/p) steps, unless the fractional part of D/p lies in the
    excluded band (0, tol/p).  Stated over r = D/p and eps = tol/p (quantifier-free mixed integer/real arithmetic)."""
    import z3
    r, eps = z3.Reals("r eps")
    j, c = z3.Ints("j c")
    first = z3.And(j >= 0, r - z3.ToReal(j) < eps, z3.Or(j == 0, r - z3.ToReal(j - 1) >= eps))       # first j with remaining < tol
    ceil_is_c = z3.And(z3.ToReal(c) >= r, z3.ToReal(c) - 1 < r)                                       # c = ceil(r)
    band = z3.And(r - z3.ToReal(j) > 0, r - z3.ToReal(j) < eps)                                        # frac(r) in (0, eps)
    out = []
    t0 = time.time()
    s = z3.Solver()
    s.set("timeout", 20000)
    s.add(r >= 0, eps > 0, eps < 1, first, ceil_is_c, z3.Not(band), j != c)
    res = s.check()
    out.append({"name": "lemma/C20.steps-equal-ceil-of-duration-over-rate", "kind": "lemma", "result": "unsat" if res == z3.unsat else ("sat" if res == z3.sat else "unknown"),
                "time": round(time.time() - t0, 3), "backend": "z3-%s" % z3.get_version_string(), "reason": None, "line": None,
                "clause": "r>=0, 0<eps<1, j first with r-j<eps, c=ceil(r), frac(r) not in (0,eps)  ==>  j == c", "details": ""})
    # must-fail companion: without excluding the band the statement is false (guards against a vacuous lemma)
    s = z3.Solver()
    s.set("timeout", 20000)
    s.add(r >= 0, eps > 0, eps < 1, first, ceil_is_c, j != c)
    res = s.check()
    out.append({"name": "lemma/C20.band-is-necessary(must-be-sat)", "kind": "lemma", "result": "unsat" if res == z3.sat else "sat",
                "time": 0.0, "backend": "z3", "reason": None, "line": None, "clause": "the same query without the band exclusion must be satisfiable", "details": ""})
    return out
