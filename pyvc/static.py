"""Static obligations: decided on the AST / call graph of the current /repo sources (DESIGN.md 3.2 kind `static`).

Every function returns a list of obligation records {name, kind='static', result 'unsat' (holds) | 'sat' (refuted),
time, backend, details}.
"""
import ast
import os
import time

from .source import Source, REPO


def rec(name, ok, details="", line=None):
    return {"name": "static/" + name, "kind": "static", "result": "unsat" if ok else "sat", "time": 0.0,
            "backend": "static-ast", "reason": None if ok else details, "details": details, "line": line,
            "clause": details}


_SRC = None


def src():
    global _SRC
    if _SRC is None:
        _SRC = Source()
    return _SRC


# ---------------------------------------------------------------------------------- A2 / A3 / schema
def plain_attributes():
    """A2/A3: no property/__getattr__/__setattr__/descriptor/__eq__/__hash__ in pDESy/model"""
    out = []
    bad_defs = {"__getattr__", "__getattribute__", "__setattr__", "__delattr__", "__eq__", "__hash__", "__lt__",
                "__le__", "__gt__", "__ge__", "__ne__", "__get__", "__set__", "__slots__", "__bool__", "__len__",
                "__iter__", "__contains__", "__getitem__"}
    hits = []
    for mod, tree in src().modules.items():
        for n in ast.walk(tree):
            if isinstance(n, ast.FunctionDef) and n.name in bad_defs:
                hits.append("%s.py:%d def %s" % (mod, n.lineno, n.name))
            if isinstance(n, ast.FunctionDef):
                for d in n.decorator_list:
                    dn = d.id if isinstance(d, ast.Name) else getattr(d, "attr", "")
                    if dn in ("property", "setter", "cached_property", "staticmethod", "classmethod"):
                        hits.append("%s.py:%d @%s %s" % (mod, n.lineno, dn, n.name))
            if isinstance(n, ast.Call) and isinstance(n.func, ast.Name) and n.func.id in ("setattr", "getattr", "delattr", "eval", "exec", "vars", "id", "hash"):
                hits.append("%s.py:%d call %s()" % (mod, n.lineno, n.func.id))
            if isinstance(n, ast.Attribute) and n.attr in ("__dict__", "__slots__"):
                hits.append("%s.py:%d %s" % (mod, n.lineno, n.attr))
    out.append(rec("plain-attributes", not hits, "; ".join(hits)))
    return out


def schema_complete():
    """every attribute assigned through `self.` in the model is listed in contracts/schema.py and vice versa"""
    from contracts.schema import SCHEMA
    out = []
    s = src()
    for cname, ci in s.classes.items():
        if ci.is_enum:
            continue
        assigned = set()
        for m in ci.methods.values():
            for n in ast.walk(m):
                if isinstance(n, ast.Attribute) and isinstance(n.value, ast.Name) and n.value.id == "self" \
                        and isinstance(n.ctx, ast.Store):
                    assigned.add(n.attr)
        known = set()
        for c in s.mro(cname):
            known |= set(SCHEMA.get(c, {}))
        missing = sorted(assigned - known)
        out.append(rec("schema.%s" % cname, not missing, "attributes assigned but not in the type schema: %s" % missing))
    return out


# ---------------------------------------------------------------------------------- C19
def c19_margin_additive():
    """finish_margin occurs in the four run-length encoders only as `<int expr> + finish_margin` in the length
    component of an appended entry: the encoders are parametric in the margin, so the integer-margin proof
    carries over to real-valued margins (DESIGN 6/C19)."""
    out = []
    s = src()
    for cls in ("BaseTask", "BaseComponent", "BaseWorker", "BaseFacility"):
        _, fn = s.get_function(cls + ".get_time_list_for_gannt_chart")
        parents = {}
        for n in ast.walk(fn):
            for c in ast.iter_child_nodes(n):
                parents[id(c)] = n
        bad = []
        for n in ast.walk(fn):
            if isinstance(n, ast.Name) and n.id == "finish_margin" and isinstance(n.ctx, ast.Load):
                p = parents.get(id(n))
                ok = isinstance(p, ast.BinOp) and isinstance(p.op, ast.Add) and p.right is n \
                    and not any(isinstance(x, ast.Name) and x.id == "finish_margin" for x in ast.walk(p.left))
                if ok:
                    pp = parents.get(id(p))
                    ok = isinstance(pp, ast.Tuple) and len(pp.elts) == 2 and pp.elts[1] is p
                    if ok:
                        call = parents.get(id(pp))
                        ok = isinstance(call, ast.Call) and isinstance(call.func, ast.Attribute) and call.func.attr == "append"
                if not ok:
                    bad.append(n.lineno)
            if isinstance(n, (ast.Assign, ast.AugAssign)):
                tg = n.targets if isinstance(n, ast.Assign) else [n.target]
                for t in tg:
                    for x in ast.walk(t):
                        if isinstance(x, ast.Name) and x.id == "finish_margin":
                            bad.append(n.lineno)
        out.append(rec("margin-additive.%s" % cls, not bad, "finish_margin used non-additively at lines %s" % bad))
    return out
