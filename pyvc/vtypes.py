"""Static types of the verified subset and their SMT sorts (DESIGN.md section 2.3)."""
import z3


class T:
    kind = "?"

    def __eq__(self, o):
        return isinstance(o, T) and repr(self) == repr(o)

    def __hash__(self):
        return hash(repr(self))


class _Simple(T):
    def __init__(self, kind):
        self.kind = kind

    def __repr__(self):
        return self.kind


TInt = _Simple("Int")
TReal = _Simple("Real")
TBool = _Simple("Bool")
TStr = _Simple("Str")
TNone = _Simple("None")
TDate = _Simple("Date")      # datetime.datetime (uninterpreted, section 2.6)
TDelta = _Simple("Delta")    # datetime.timedelta
TJson = _Simple("Json")      # opaque json value


class TRef(T):
    kind = "Ref"

    def __init__(self, cls=None):
        self.cls = cls

    def __repr__(self):
        return "Ref(%s)" % self.cls


class TEnum(T):
    kind = "Enum"

    def __init__(self, name):
        self.name = name

    def __repr__(self):
        return "Enum(%s)" % self.name


class TList(T):
    kind = "List"

    def __init__(self, elem):
        self.elem = elem

    def __repr__(self):
        return "List(%r)" % (self.elem,)


class TSet(T):
    kind = "Set"

    def __init__(self, elem):
        self.elem = elem

    def __repr__(self):
        return "Set(%r)" % (self.elem,)


class TTuple(T):
    kind = "Tuple"

    def __init__(self, elems):
        self.elems = tuple(elems)

    def __repr__(self):
        return "Tuple(%s)" % ",".join(map(repr, self.elems))


class TRecord(T):
    """dict literal with constant string keys (e.g. a Gantt chart row)"""
    kind = "Record"

    def __init__(self, names, elems):
        self.names = tuple(names)
        self.elems = tuple(elems)

    def __repr__(self):
        return "Record(%s)" % ",".join("%s:%r" % (n, t) for n, t in zip(self.names, self.elems))


class TDict(T):
    kind = "Dict"

    def __init__(self, k, v):
        self.k, self.v = k, v

    def __repr__(self):
        return "Dict(%r,%r)" % (self.k, self.v)


class TOpt(T):
    kind = "Opt"

    def __init__(self, t):
        self.t = t

    def __repr__(self):
        return "Opt(%r)" % (self.t,)


def parse_type(s):
    """tiny parser for schema strings: 'List[Ref(BaseTask)]', 'Opt[List[Str]]', 'Dict[Str,Real]'"""
    s = s.strip()
    simple = {"Int": TInt, "Real": TReal, "Bool": TBool, "Str": TStr, "None": TNone,
              "Date": TDate, "Delta": TDelta, "Json": TJson}
    if s in simple:
        return simple[s]
    if s.startswith("Ref(") and s.endswith(")"):
        return TRef(s[4:-1] or None)
    if s == "Ref":
        return TRef(None)
    if s.startswith("Enum(") and s.endswith(")"):
        return TEnum(s[5:-1])
    for name, ctor in (("List", TList), ("Set", TSet), ("Opt", TOpt)):
        if s.startswith(name + "[") and s.endswith("]"):
            return ctor(parse_type(s[len(name) + 1:-1]))
    if s.startswith("Record[") and s.endswith("]"):
        names, ts = [], []
        for part in s[7:-1].split(","):
            n, t = part.split(":")
            names.append(n.strip())
            ts.append(parse_type(t))
        return TRecord(names, ts)
    if s.startswith("Tuple[") or s.startswith("Dict["):
        name = s[:s.index("[")]
        inner = s[len(name) + 1:-1]
        parts, depth, cur = [], 0, ""
        for ch in inner:
            if ch in "[(":
                depth += 1
            if ch in "])":
                depth -= 1
            if ch == "," and depth == 0:
                parts.append(cur)
                cur = ""
            else:
                cur += ch
        parts.append(cur)
        ts = [parse_type(p) for p in parts]
        return TTuple(ts) if name == "Tuple" else TDict(ts[0], ts[1])
    raise ValueError("bad type " + s)


class Sorts:
    """z3 sorts for a mode. Ref is uninterpreted in INV mode, a finite enumeration in UNROLL mode."""

    def __init__(self, finite_refs=None, finite_strs=None):
        self.ctx = z3.main_ctx()
        self.finite_refs = finite_refs
        self.finite_strs = finite_strs
        if finite_refs:
            self.Ref, consts = z3.EnumSort("Ref", ["null"] + ["r%d" % i for i in range(1, finite_refs + 1)])
            self.null = consts[0]
            self.ref_consts = consts[1:]
        else:
            self.Ref = z3.DeclareSort("Ref")
            self.null = z3.Const("null", self.Ref)
            self.ref_consts = None
        if finite_strs:
            self.Str, sc = z3.EnumSort("Str", ["s%d" % i for i in range(finite_strs)])
            self.str_consts = list(sc)
        else:
            self.Str = z3.DeclareSort("Str")
            self.str_consts = None
        self.Date = z3.DeclareSort("Date")
        self.Delta = z3.RealSort()          # timedelta measured in seconds (A1)
        self.Json = z3.DeclareSort("Json")
        self.NoneS, (self.none_val,) = z3.EnumSort("NoneT", ["none_v"])
        self._cache = {}
        self._lits = {}
        self.lit_order = []

    def sort(self, t):
        key = repr(t)
        if key in self._cache:
            return self._cache[key]
        k = t.kind
        if k in ("Int", "Enum"):
            s = z3.IntSort()
        elif k == "Real":
            s = z3.RealSort()
        elif k == "Bool":
            s = z3.BoolSort()
        elif k == "Str":
            s = self.Str
        elif k == "Ref":
            s = self.Ref
        elif k == "None":
            s = self.NoneS
        elif k == "Date":
            s = self.Date
        elif k == "Delta":
            s = self.Delta
        elif k == "Json":
            s = self.Json
        elif k == "List":
            es = self.sort(t.elem)
            nm = "L_%s" % _mangle(t.elem)
            d = z3.Datatype(nm)
            # constructor / accessor names are unique per sort so that SMT-LIB dumps are readable by other solvers
            d.declare("mk_" + nm, ("len_" + nm, z3.IntSort()), ("el_" + nm, z3.ArraySort(z3.IntSort(), es)))
            s = d.create()
            s.mk, s.len, s.el = s.constructor(0), s.accessor(0, 0), s.accessor(0, 1)
        elif k == "Set":
            s = z3.ArraySort(self.sort(t.elem), z3.BoolSort())
        elif k == "Tuple":
            nm = "T_%s" % "_".join(_mangle(e) for e in t.elems)
            d = z3.Datatype(nm)
            d.declare("mk_" + nm, *[("f%d_%s" % (i, nm), self.sort(e)) for i, e in enumerate(t.elems)])
            s = d.create()
            s.mk = s.constructor(0)
        elif k == "Record":
            nm = "R_%s" % "_".join(_mangle(e) for e in t.elems) + "_" + _mangle_text("|".join(t.names))
            d = z3.Datatype(nm)
            d.declare("mk_" + nm, *[("f%d_%s" % (i, nm), self.sort(e)) for i, e in enumerate(t.elems)])
            s = d.create()
            s.mk = s.constructor(0)
        elif k == "Dict":
            nm = "D_%s_%s" % (_mangle(t.k), _mangle(t.v))
            d = z3.Datatype(nm)
            ks, vs = self.sort(t.k), self.sort(t.v)
            d.declare("mk_" + nm, ("dom_" + nm, z3.ArraySort(ks, z3.BoolSort())), ("val_" + nm, z3.ArraySort(ks, vs)))
            s = d.create()
            s.mk, s.dom, s.val = s.constructor(0), s.accessor(0, 0), s.accessor(0, 1)
        elif k == "Opt":
            inner = self.sort(t.t)
            nm = "O_%s" % _mangle(t.t)
            d = z3.Datatype(nm)
            d.declare("none_" + nm)
            d.declare("some_" + nm, ("val_" + nm, inner))
            s = d.create()
            s.none, s.some, s.val = s.constructor(0)(), s.constructor(1), s.accessor(1, 0)
            s.is_none, s.is_some = s.recognizer(0), s.recognizer(1)
        else:
            raise ValueError("no sort for %r" % (t,))
        self._cache[key] = s
        return s

    def str_lit(self, text):
        if text not in self._lits:
            if self.str_consts is not None:
                idx = len(self._lits)
                if idx >= len(self.str_consts):
                    raise ValueError("finite Str universe too small for literal %r" % text)
                self._lits[text] = self.str_consts[idx]
            else:
                self._lits[text] = z3.Const("str_%s" % _mangle_text(text), self.Str)
            self.lit_order.append(text)
        return self._lits[text]

    def lit_axioms(self):
        vals = list(self._lits.values())
        if self.str_consts is not None or len(vals) < 2:
            return []
        return [z3.Distinct(*vals)]


def _mangle(t):
    return repr(t).replace("(", "_").replace(")", "").replace(",", "_").replace("[", "_").replace("]", "")


def _mangle_text(s):
    import hashlib
    return "".join(ch if ch.isalnum() else "_%x" % ord(ch) for ch in s)[:40] + "_" + hashlib.md5(s.encode()).hexdigest()[:6]
